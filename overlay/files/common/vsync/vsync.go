// Package vsync is a drop-in replacement for the parts of package sync used by go-zenon's chain, db, pillar and
// consensus packages. It exists only in the verification overlay (it is never part of the repository): the overlay
// generator rewrites `"sync"` imports of those packages to this package.
//
// When no scheduler is active every type behaves exactly like its sync counterpart (pass-through). When a scheduler is
// active (see sched.go) Mutex operations become scheduling points of a cooperative, deterministic scheduler.
package vsync

import (
	"sync"
	"sync/atomic"
)

type Locker = sync.Locker
type Once = sync.Once
type Pool = sync.Pool
type Map = sync.Map
type Cond = sync.Cond

var active atomic.Pointer[Sched]

var mutexSeq atomic.Int64

type Mutex struct {
	real sync.Mutex
	// scheduler-mode state, guarded by Sched.mu
	held  bool
	owner *Thread
	id    int64
	// sch is the scheduler under which the mutex is currently held (nil when free or held in pass-through mode). The
	// unlock goes to the mode the lock was taken in, even if the scheduler has been deactivated in between (the tail of
	// a goroutine spawned by the code under test may still be unwinding when the last logical thread has finished).
	sch atomic.Pointer[Sched]
}

func (m *Mutex) ident() int64 {
	if id := atomic.LoadInt64(&m.id); id != 0 {
		return id
	}
	atomic.CompareAndSwapInt64(&m.id, 0, mutexSeq.Add(1))
	return atomic.LoadInt64(&m.id)
}

func (m *Mutex) Lock() {
	if s := active.Load(); s != nil {
		s.acquire(m)
		return
	}
	m.real.Lock()
}
func (m *Mutex) Unlock() {
	if s := m.sch.Load(); s != nil {
		s.release(m)
		return
	}
	m.real.Unlock()
}

// RWMutex: pass-through mode uses a real sync.RWMutex (readers really run concurrently, which the free-running -race
// pass relies on). Under the scheduler a reader is enabled while no writer holds the lock, a writer while nobody does.
type RWMutex struct {
	real sync.RWMutex
	w    Mutex // writer side under the scheduler (held/owner/sch bookkeeping)
	// scheduler-mode reader bookkeeping, guarded by Sched.mu
	readers int
	rsch    atomic.Pointer[Sched]
}

func (m *RWMutex) Lock() {
	if s := active.Load(); s != nil {
		s.acquireW(m)
		return
	}
	m.real.Lock()
}
func (m *RWMutex) Unlock() {
	if s := m.w.sch.Load(); s != nil {
		s.release(&m.w)
		return
	}
	m.real.Unlock()
}
func (m *RWMutex) RLock() {
	if s := active.Load(); s != nil {
		s.acquireR(m)
		return
	}
	m.real.RLock()
}
func (m *RWMutex) RUnlock() {
	if s := m.rsch.Load(); s != nil {
		s.releaseR(m)
		return
	}
	m.real.RUnlock()
}
func (m *RWMutex) RLocker() Locker { return (*rlocker)(m) }

type rlocker RWMutex

func (r *rlocker) Lock()   { (*RWMutex)(r).RLock() }
func (r *rlocker) Unlock() { (*RWMutex)(r).RUnlock() }

type WaitGroup struct {
	real sync.WaitGroup
	n    int64
}

func (w *WaitGroup) Add(d int) {
	// the logical counter is kept in both modes so that a mode switch never loses a count
	if s := active.Load(); s != nil {
		s.mu.Lock()
		w.n += int64(d)
		s.mu.Unlock()
	} else {
		atomic.AddInt64(&w.n, int64(d))
	}
	w.real.Add(d)
}
func (w *WaitGroup) Done() { w.Add(-1) }
func (w *WaitGroup) Wait() {
	if s := active.Load(); s != nil {
		s.waitZero(w)
		return
	}
	w.real.Wait()
}
