package c15

import (
	"fmt"
	"runtime"
	"runtime/debug"
	"strings"
	"sync"
	"time"

	"github.com/zenon-network/go-zenon/chain/nom"
	"github.com/zenon-network/go-zenon/common/types"
	"github.com/zenon-network/go-zenon/protocol"

	"verifmc/internal/vnode"
)

// env is one real node (chain + bridge) the protocol sessions run against. The chain is built once and never changes:
// no session carries validly signed data, and every session checks that the frontier is still the one it started with.
type env struct {
	name     string // "big" | "small"
	n        *vnode.Node
	H        uint64
	chainID  uint64
	byHeight []types.Hash // index = height (0 unused)
	genesis  types.Hash
	frontier types.Hash
	mid      types.Hash
	raw      bool // confirmation mode: nothing is recovered, a panic kills the process like it kills a real node
	memo     txMemo
}

const (
	bigHeight   = 600 // > 512 so that the hash cap and the momentum cap are observable
	smallHeight = 5   // a young chain: every height is within the fetcher's import window (maxUncleDist = 7)
)

func buildEnv(name string, dir string, height uint64) *env {
	n := vnode.New(vnode.Options{Dir: dir})
	for n.Height() < height {
		if _, err := n.Produce(0); err != nil {
			panic(fmt.Sprintf("building the %s chain: %v", name, err))
		}
	}
	e := &env{name: name, n: n, H: n.Height(), chainID: n.Chain.ChainIdentifier()}
	st := n.Chain.GetFrontierMomentumStore()
	e.byHeight = make([]types.Hash, e.H+1)
	for h := uint64(1); h <= e.H; h++ {
		m, err := st.GetMomentumByHeight(h)
		if err != nil || m == nil {
			panic(fmt.Sprintf("momentum %d missing: %v", h, err))
		}
		e.byHeight[h] = m.Hash
	}
	e.genesis = e.byHeight[1]
	e.frontier = e.byHeight[e.H]
	e.mid = e.byHeight[(e.H+1)/2]
	return e
}

// ---------------------------------------------------------------------------------------------------------------------
// observing bridge

type bridgePanic struct {
	Method string
	Value  string
	Site   string // first repository frame below the panic
	Origin string // which goroutine family called the bridge: handler | fetcher | downloader | other
	Stack  string
}

// obsBridge is the protocol.ChainBridge handed to the ProtocolManager. It forwards every call to the real bridge. In
// observe mode a panic below a bridge method is recorded (with its stack, which tells which goroutine family it would
// have killed) and turned into an error return, so that one worker can observe thousands of such sessions; in raw mode
// it is transparent and the panic takes its real course.
type obsBridge struct {
	inner protocol.ChainBridge
	raw   bool
	mu    sync.Mutex
	pan   []bridgePanic
	calls map[string]int
	memo  *txMemo
}

// txMemo memoizes GetTransactions (the list of unconfirmed account blocks, read once per connecting peer; it costs more
// than a millisecond on the mock ledger). The pool can only change through AddAccountBlocks or InsertChain, both of
// which go through this wrapper and invalidate the memo. Not used in raw mode.
type txMemo struct {
	mu    sync.Mutex
	valid bool
	txs   []*nom.AccountBlock
}

func (b *obsBridge) note(method string) {
	b.mu.Lock()
	if b.calls == nil {
		b.calls = map[string]int{}
	}
	b.calls[method]++
	b.mu.Unlock()
}

func (b *obsBridge) guard(method string, onPanic func()) {
	if b.raw {
		return
	}
	if r := recover(); r != nil {
		st := string(debug.Stack())
		b.mu.Lock()
		b.pan = append(b.pan, bridgePanic{Method: method, Value: fmt.Sprint(r), Site: panicSite(st), Origin: stackOrigin(st), Stack: trimStack(st)})
		b.mu.Unlock()
		onPanic()
	}
}

func (b *obsBridge) panicCount() int {
	b.mu.Lock()
	defer b.mu.Unlock()
	return len(b.pan)
}

func (b *obsBridge) takePanics() []bridgePanic {
	b.mu.Lock()
	defer b.mu.Unlock()
	p := b.pan
	b.pan = nil
	return p
}

var errObservedPanic = fmt.Errorf("verif: panic observed below the chain bridge")

func (b *obsBridge) invalidate() {
	if b.memo != nil {
		b.memo.mu.Lock()
		b.memo.valid = false
		b.memo.mu.Unlock()
	}
}

func (b *obsBridge) AddAccountBlocks(blocks []*nom.AccountBlock) (err error) {
	b.note("AddAccountBlocks")
	b.invalidate()
	defer b.invalidate()
	defer b.guard("AddAccountBlocks", func() { err = errObservedPanic })
	return b.inner.AddAccountBlocks(blocks)
}
func (b *obsBridge) GetTransactions() (out []*nom.AccountBlock) {
	defer b.guard("GetTransactions", func() { out = nil })
	if b.memo != nil && !b.raw {
		b.memo.mu.Lock()
		defer b.memo.mu.Unlock()
		if !b.memo.valid {
			b.memo.txs = b.inner.GetTransactions()
			b.memo.valid = true
		}
		return append([]*nom.AccountBlock{}, b.memo.txs...)
	}
	return b.inner.GetTransactions()
}
func (b *obsBridge) HasBlock(hash types.Hash) (ok bool) {
	defer b.guard("HasBlock", func() { ok = false })
	return b.inner.HasBlock(hash)
}
func (b *obsBridge) GetBlockHashesFromHash(hash types.Hash, amount uint64) (out []types.Hash, err error) {
	defer b.guard("GetBlockHashesFromHash", func() { out, err = nil, errObservedPanic })
	return b.inner.GetBlockHashesFromHash(hash, amount)
}
func (b *obsBridge) GetBlock(hash types.Hash) (out *nom.DetailedMomentum) {
	defer b.guard("GetBlock", func() { out = nil })
	return b.inner.GetBlock(hash)
}
func (b *obsBridge) GetBlockByNumber(num uint64) (out *nom.Momentum, err error) {
	defer b.guard("GetBlockByNumber", func() { out, err = nil, errObservedPanic })
	return b.inner.GetBlockByNumber(num)
}
func (b *obsBridge) CurrentBlock() *nom.Momentum {
	return b.inner.CurrentBlock()
}
func (b *obsBridge) Status() (uint64, types.Hash, types.Hash) {
	return b.inner.Status()
}
func (b *obsBridge) InsertChain(chain []*nom.DetailedMomentum) (idx int, err error) {
	b.note("InsertChain")
	b.invalidate()
	defer b.invalidate()
	defer b.guard("InsertChain", func() { idx, err = 0, errObservedPanic })
	return b.inner.InsertChain(chain)
}

// panicSite returns the first go-zenon frame below runtime.gopanic / runtime.panic* in a debug.Stack() dump.
func panicSite(st string) string {
	lines := strings.Split(st, "\n")
	seenPanic := false
	for _, l := range lines {
		if strings.HasPrefix(l, "\t") || l == "" {
			continue
		}
		if strings.HasPrefix(l, "panic(") || strings.HasPrefix(l, "runtime.") {
			if strings.HasPrefix(l, "panic(") || strings.Contains(l, "runtime.panic") || strings.Contains(l, "runtime.gopanic") || strings.Contains(l, "runtime.sigpanic") || strings.Contains(l, "runtime.goPanic") {
				seenPanic = true
			}
			continue
		}
		if !seenPanic {
			continue
		}
		if i := strings.Index(l, "github.com/zenon-network/go-zenon/"); i >= 0 {
			f := l[i+len("github.com/zenon-network/go-zenon/"):]
			if j := strings.LastIndex(f, "("); j > 0 {
				f = f[:j]
			}
			// drop a receiver's address arguments: "chain/momentum.(*momentumStore).GetMomentumsByHash"
			return f
		}
	}
	return "unknown"
}

func stackOrigin(st string) string {
	switch {
	case strings.Contains(st, "protocol/fetcher.(*Fetcher)"):
		return "fetcher"
	case strings.Contains(st, "protocol/downloader.(*Downloader)"):
		return "downloader"
	case strings.Contains(st, "protocol.(*ProtocolManager).handleMsg") || strings.Contains(st, "protocol.(*ProtocolManager).handle"):
		return "handler"
	}
	return "other"
}

func trimStack(st string) string {
	if len(st) > 2500 {
		st = st[:2500] + "..."
	}
	return st
}

// ---------------------------------------------------------------------------------------------------------------------
// quiescence: wait until every goroutine except the caller is parked

var stackBuf = make([]byte, 1<<20)

// busyGoroutines returns how many goroutines other than the calling one are running, runnable or in a transient
// runtime state. Goroutines parked on a channel, select, lock, sleep or timer are idle: whatever they still do is driven
// by a timer or by the peer, not by the message that was just handled.
func busyGoroutines() (busy int, unknown string) {
	for {
		n := runtime.Stack(stackBuf, true)
		if n < len(stackBuf) {
			return parseBusy(stackBuf[:n])
		}
		stackBuf = make([]byte, 2*len(stackBuf))
	}
}

func parseBusy(dump []byte) (busy int, unknown string) {
	s := string(dump)
	first := true
	for len(s) > 0 {
		i := strings.Index(s, "goroutine ")
		if i < 0 {
			break
		}
		if i > 0 && s[i-1] != '\n' {
			s = s[i+10:]
			continue
		}
		s = s[i:]
		nl := strings.IndexByte(s, '\n')
		if nl < 0 {
			nl = len(s)
		}
		head := s[:nl]
		s = s[nl:]
		a, b := strings.IndexByte(head, '['), strings.LastIndexByte(head, ']')
		if a < 0 || b < a {
			continue
		}
		if first { // the caller
			first = false
			continue
		}
		state := head[a+1 : b]
		if c := strings.IndexByte(state, ','); c >= 0 {
			state = state[:c]
		}
		switch state {
		case "chan receive", "chan send", "select", "select (no cases)", "sleep", "IO wait", "semacquire",
			"sync.Mutex.Lock", "sync.RWMutex.RLock", "sync.RWMutex.Lock", "sync.Cond.Wait", "sync.WaitGroup.Wait",
			"finalizer wait", "force gc (idle)", "GC sweep wait", "GC scavenge wait", "GC worker (idle)",
			"chan receive (nil chan)", "chan send (nil chan)", "debug call", "timer goroutine (idle)", "cleanup wait":
		case "running", "runnable", "syscall", "preempted", "copystack", "GC assist wait", "GC assist marking", "waiting", "trace reader (blocked)":
			busy++
		default:
			busy++
			unknown = state
		}
	}
	return
}

// quiesce polls until no other goroutine is busy. It returns false when that did not happen within max (reported as
// an informational counter, never as a violation).
func quiesce(max time.Duration) (ok bool, polls int, unknown string) {
	deadline := time.Now().Add(max)
	for {
		runtime.Gosched()
		polls++
		b, u := busyGoroutines()
		if u != "" {
			unknown = u
		}
		if b == 0 {
			return true, polls, unknown
		}
		if time.Now().After(deadline) {
			return false, polls, unknown
		}
		if polls > 3 {
			time.Sleep(100 * time.Microsecond)
		}
	}
}
