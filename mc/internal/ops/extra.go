package ops

import (
	"math/big"

	"github.com/zenon-network/go-zenon/chain/nom"
	"github.com/zenon-network/go-zenon/common/types"
	"github.com/zenon-network/go-zenon/vm/embedded/definition"

	"verifmc/internal/vnode"
)

// CustomToken returns the first token (other than ZNN/QSR) found in the token contract's confirmed storage, or nil.
func CustomToken(n *vnode.Node) *definition.TokenInfo {
	st := n.Chain.GetFrontierMomentumStore().GetAccountStore(types.TokenContract)
	list, err := definition.GetTokenInfoList(st.Storage())
	if err != nil {
		return nil
	}
	var best *definition.TokenInfo
	for _, t := range list {
		if t.TokenStandard == types.ZnnTokenStandard || t.TokenStandard == types.QsrTokenStandard {
			continue
		}
		if best == nil || t.TokenStandard.String() < best.TokenStandard.String() {
			best = t
		}
	}
	return best
}

// tokenFor resolves the token index: 0 ZNN, 1 QSR, 2 the custom token (zero standard if none exists yet), 3 an unknown standard.
func tokenFor(n *vnode.Node, t int) types.ZenonTokenStandard {
	switch t {
	case 0:
		return types.ZnnTokenStandard
	case 1:
		return types.QsrTokenStandard
	case 2:
		if ti := CustomToken(n); ti != nil {
			return ti.TokenStandard
		}
		return types.ZeroTokenStandard
	}
	return types.NewZenonTokenStandard([]byte("a token nobody ever issued"))
}

// amountFor: V >= 0 literal; -1 the whole (pool-view) balance; -2 balance+1.
func amountFor(n *vnode.Node, addr types.Address, zts types.ZenonTokenStandard, v int64) *big.Int {
	if v >= 0 {
		return big.NewInt(v)
	}
	bal, err := n.Chain.GetFrontierAccountStore(addr).GetBalance(zts)
	if err != nil || bal == nil {
		bal = big.NewInt(0)
	}
	bal = new(big.Int).Set(bal)
	if v == -2 {
		bal.Add(bal, big.NewInt(1))
	}
	return bal
}

func submit(n *vnode.Node, t *nom.AccountBlock) string {
	b, err := n.Submit(t)
	return res(b, err)
}

// LastReceived returns the hash of the most recent send addressed to addr that has already been received (confirmed).
func LastReceived(n *vnode.Node, addr types.Address) *types.Hash {
	st := n.Chain.GetFrontierMomentumStore()
	acc := st.GetAccountStore(addr)
	for h := acc.Identifier().Height; h >= 1; h-- {
		b, err := acc.ByHeight(h)
		if err != nil || b == nil {
			return nil
		}
		if b.BlockType == nom.BlockTypeUserReceive {
			x := b.FromBlockHash
			return &x
		}
	}
	return nil
}

func init() {
	// Tx: transfer A -> B of token T (see tokenFor) with amount selector V (see amountFor)
	Extra["Tx"] = func(n *vnode.Node, o Op) string {
		zts := tokenFor(n, o.T)
		from := Users[o.A].Address
		return submit(n, &nom.AccountBlock{BlockType: nom.BlockTypeUserSend, Address: from, ToAddress: Users[o.B].Address, TokenStandard: zts, Amount: amountFor(n, from, zts, o.V)})
	}
	// Tneg: the same transfer as Tx, but the in-memory amount carries a minus sign when the signed block is handed to the
	// node the way ledger.publishRawTransaction does (supervisor.ApplyBlock, then inserted as an own block). Hash,
	// signature and wire encoding only cover the magnitude, so the sign is invisible to everything but big.Int arithmetic.
	Extra["Tneg"] = func(n *vnode.Node, o Op) (out string) {
		defer func() {
			if r := recover(); r != nil {
				out = "panic"
			}
		}()
		zts := tokenFor(n, o.T)
		from := Users[o.A].Address
		tx, err := n.Generate(&nom.AccountBlock{BlockType: nom.BlockTypeUserSend, Address: from, ToAddress: Users[o.B].Address, TokenStandard: zts, Amount: amountFor(n, from, zts, o.V)})
		if err != nil {
			return "err:" + err.Error()
		}
		blk := tx.Block
		blk.Amount = new(big.Int).Neg(blk.Amount)
		tx2, err := n.Sup.ApplyBlock(blk)
		if err != nil {
			return "err:" + err.Error()
		}
		insert := n.Chain.AcquireInsert("ops Tneg")
		err = n.Chain.AddAccountBlockTransaction(insert, tx2)
		insert.Unlock()
		return res(tx2.Block, err)
	}
	// Rwrong: account A tries to receive the oldest pending send addressed to account B
	Extra["Rwrong"] = func(n *vnode.Node, o Op) string {
		h := OldestPending(n, Users[o.B].Address, 0)
		if h == nil {
			return "nopending"
		}
		return submit(n, &nom.AccountBlock{BlockType: nom.BlockTypeUserReceive, Address: Users[o.A].Address, FromBlockHash: *h})
	}
	// Rdup: account A receives again a send it has already received
	Extra["Rdup"] = func(n *vnode.Node, o Op) string {
		h := LastReceived(n, Users[o.A].Address)
		if h == nil {
			return "noreceived"
		}
		return submit(n, &nom.AccountBlock{BlockType: nom.BlockTypeUserReceive, Address: Users[o.A].Address, FromBlockHash: *h})
	}
	// Rpooldup: account A receives AGAIN the send that its latest still-unconfirmed receive block references
	Extra["Rpooldup"] = func(n *vnode.Node, o Op) string {
		addr := Users[o.A].Address
		var h *types.Hash
		for _, b := range n.Chain.GetUncommittedAccountBlocksByAddress(addr) {
			if b.BlockType == nom.BlockTypeUserReceive {
				x := b.FromBlockHash
				h = &x
			}
		}
		if h == nil {
			return "nopooledreceive"
		}
		return submit(n, &nom.AccountBlock{BlockType: nom.BlockTypeUserReceive, Address: addr, FromBlockHash: *h})
	}
	// RdupOld: account A receives again a send whose receive is already CONFIRMED, acknowledging the momentum just below
	// the one that confirmed that receive (allowed as long as it is not older than the predecessor's acknowledgement)
	Extra["RdupOld"] = func(n *vnode.Node, o Op) string {
		addr := Users[o.A].Address
		st := n.Chain.GetFrontierMomentumStore()
		acc := st.GetAccountStore(addr)
		for h := acc.Identifier().Height; h >= 1; h-- {
			b, err := acc.ByHeight(h)
			if err != nil || b == nil {
				break
			}
			if b.BlockType != nom.BlockTypeUserReceive {
				continue
			}
			c, err := st.GetBlockConfirmationHeight(b.Hash)
			if err != nil || c < 2 {
				return "noconf"
			}
			m, err := st.GetMomentumByHeight(c - 1)
			if err != nil || m == nil {
				return "noack"
			}
			return submit(n, &nom.AccountBlock{BlockType: nom.BlockTypeUserReceive, Address: addr, FromBlockHash: b.FromBlockHash, MomentumAcknowledged: m.Identifier()})
		}
		return "noreceived"
	}
	// Mint: A asks the token contract to mint V of token T to B
	Extra["Mint"] = func(n *vnode.Node, o Op) string {
		zts := tokenFor(n, o.T)
		return submit(n, &nom.AccountBlock{BlockType: nom.BlockTypeUserSend, Address: Users[o.A].Address, ToAddress: types.TokenContract,
			TokenStandard: types.ZnnTokenStandard, Amount: big.NewInt(0),
			Data: definition.ABIToken.PackMethodPanic(definition.MintMethodName, zts, big.NewInt(o.V), Users[o.B].Address)})
	}
	// Burn: A burns amount selector V of token T
	Extra["Burn"] = func(n *vnode.Node, o Op) string {
		zts := tokenFor(n, o.T)
		from := Users[o.A].Address
		return submit(n, &nom.AccountBlock{BlockType: nom.BlockTypeUserSend, Address: from, ToAddress: types.TokenContract,
			TokenStandard: zts, Amount: amountFor(n, from, zts, o.V), Data: definition.ABIToken.PackMethodPanic(definition.BurnMethodName)})
	}
	// UpdTok: A updates the custom token: B bit0 = mintable, bit1 = burnable; owner stays A
	Extra["UpdTok"] = func(n *vnode.Node, o Op) string {
		zts := tokenFor(n, 2)
		return submit(n, &nom.AccountBlock{BlockType: nom.BlockTypeUserSend, Address: Users[o.A].Address, ToAddress: types.TokenContract,
			TokenStandard: types.ZnnTokenStandard, Amount: big.NewInt(0),
			Data: definition.ABIToken.PackMethodPanic(definition.UpdateTokenMethodName, zts, Users[o.A].Address, o.B&1 != 0, o.B&2 != 0)})
	}
	// Tbig: transfer A -> B of 1 unit with V bytes of data (large stored block: big momentum patches)
	Extra["Tbig"] = func(n *vnode.Node, o Op) string {
		data := make([]byte, o.V)
		for i := range data {
			data[i] = byte(i*7 + o.A)
		}
		return submit(n, &nom.AccountBlock{BlockType: nom.BlockTypeUserSend, Address: Users[o.A].Address, ToAddress: Users[o.B].Address,
			TokenStandard: types.ZnnTokenStandard, Amount: big.NewInt(1), Data: data})
	}
	// CancelGenesisFuse: user A (0 or 1) cancels the fusion it made for itself in the mock genesis (the two genesis
	// fusions with non-zero ids; expiration height 0, so they can be cancelled at once). Afterwards A has no fused plasma.
	Extra["CancelGenesisFuse"] = func(n *vnode.Node, o Op) string {
		ids := []string{"117613e734b6cb0fd7b7583f5b0e863a3f0c856cd32fa36f1b60b464d068c5a6", "3d3179e499f839b47c60216b57f79e41264d408e2f21aa6f5462f25d5e094924"}
		return submit(n, &nom.AccountBlock{BlockType: nom.BlockTypeUserSend, Address: Users[o.A].Address, ToAddress: types.PlasmaContract,
			TokenStandard: types.ZnnTokenStandard, Amount: big.NewInt(0),
			Data: definition.ABIPlasma.PackMethodPanic(definition.CancelFuseMethodName, types.HexToHashPanic(ids[o.A]))})
	}
	// SendTo: A sends amount V of token T to embedded contract S ("stake","plasma","pillar","token","sentinel","accelerator") with data of call C (from Calls) — for calls with foreign tokens
}
