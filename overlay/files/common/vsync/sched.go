package vsync

import (
	"bytes"
	"fmt"
	"runtime"
	"strconv"
	"sync"
)

// Sched is a cooperative, deterministic scheduler for a small number of logical threads. Exactly one logical thread
// runs at a time. Scheduling points are placed before every Mutex acquisition and at explicit Yield calls; at a point
// the scheduler consults the choice sequence it was given (replay prefix) and otherwise takes choice 0, where the
// enabled threads are listed in canonical order: the running thread first if it is still enabled, then ascending ids.
//
// A goroutine spawned by a logical thread (e.g. common.NewTask) inherits the logical thread of its creator the first
// time it reaches a hooked operation; the creator must then be waiting on an unhooked primitive (channel).
type Sched struct {
	mu      sync.Mutex
	threads []*Thread
	running *Thread
	byGoid  map[int64]*Thread

	prefix []int
	Points []Point

	Deadlock   bool
	Diverged   string // replay divergence (harness error)
	finished   chan struct{}
	finishOnce sync.Once
	MaxPoints  int
	Overflow   bool
}

type Point struct {
	Enabled             []int  // thread ids in canonical order
	RunningStillEnabled bool   // whether Enabled[0] is the thread that was running
	Choice              int    // index into Enabled
	Kind                string // "lock", "yield:<site>", "exit", "wait"
	Obj                 int64  // mutex id for lock points
	Thread              int    // thread that reached the point
}

type Thread struct {
	ID      int
	Name    string
	wake    chan struct{}
	done    bool
	started bool
	// pending operation while parked at a point
	wantLock *Mutex
	wantR    *RWMutex // wants a read lock
	wantW    *RWMutex // wants the write lock
	wantWG   *WaitGroup
	Ops      int // hooked operations executed (for state keys)
	body     func()
	panicVal interface{}
}

func NewSched(prefix []int) *Sched {
	return &Sched{prefix: prefix, byGoid: map[int64]*Thread{}, finished: make(chan struct{}), MaxPoints: 200000}
}

func (s *Sched) Go(name string, body func()) *Thread {
	t := &Thread{ID: len(s.threads), Name: name, wake: make(chan struct{}, 1), body: body}
	s.threads = append(s.threads, t)
	return t
}

func goid() int64 {
	var buf [64]byte
	n := runtime.Stack(buf[:], false)
	// "goroutine 123 [running]:..."
	b := buf[:n]
	b = b[len("goroutine "):]
	i := bytes.IndexByte(b, ' ')
	id, _ := strconv.ParseInt(string(b[:i]), 10, 64)
	return id
}

// Run activates the scheduler, runs all threads to completion (or deadlock) and deactivates it.
// Returns the panics of the thread bodies (nil entries for clean exits).
func (s *Sched) Run() []interface{} {
	if !active.CompareAndSwap(nil, s) {
		panic("vsync: a scheduler is already active")
	}
	defer active.Store(nil)
	for _, t := range s.threads {
		t := t
		go func() {
			<-t.wake
			s.mu.Lock()
			s.byGoid[goid()] = t
			s.mu.Unlock()
			func() {
				defer func() {
					if r := recover(); r != nil {
						if _, ok := r.(abortExec); !ok {
							t.panicVal = r
						}
					}
				}()
				t.body()
			}()
			s.exit(t)
		}()
	}
	// initial decision: which thread starts
	s.mu.Lock()
	s.running = nil
	s.dispatchLocked(nil, "start", 0)
	s.mu.Unlock()
	<-s.finished
	out := make([]interface{}, len(s.threads))
	for i, t := range s.threads {
		out[i] = t.panicVal
	}
	return out
}

type abortExec struct{}

func (s *Sched) callerLocked() *Thread {
	g := goid()
	if t, ok := s.byGoid[g]; ok {
		if t != s.running {
			s.Diverged = fmt.Sprintf("hooked operation from thread %d while thread %d is running", t.ID, s.running.ID)
		}
		return t
	}
	// unknown goroutine: spawned by the running thread
	s.byGoid[g] = s.running
	return s.running
}

func (s *Sched) enabledLocked(t *Thread) bool {
	if t.done {
		return false
	}
	if t.wantLock != nil && t.wantLock.held {
		return false
	}
	if t.wantWG != nil && t.wantWG.n > 0 {
		return false
	}
	if t.wantR != nil && t.wantR.w.held {
		return false
	}
	if t.wantW != nil && (t.wantW.w.held || t.wantW.readers > 0) {
		return false
	}
	return true
}

// dispatchLocked records a scheduling point reached by `at` (nil at start / thread exit) and transfers control to the
// chosen thread. Returns true if `at` itself was chosen (it just continues).
func (s *Sched) dispatchLocked(at *Thread, kind string, obj int64) bool {
	var enabled []*Thread
	runningStill := false
	if at != nil && s.enabledLocked(at) {
		enabled = append(enabled, at)
		runningStill = true
	}
	for _, t := range s.threads {
		if t != at && s.enabledLocked(t) {
			enabled = append(enabled, t)
		}
	}
	if len(enabled) == 0 {
		alldone := true
		for _, t := range s.threads {
			if !t.done {
				alldone = false
			}
		}
		if !alldone {
			s.Deadlock = true
		}
		s.finishOnce.Do(func() { close(s.finished) })
		return false
	}
	idx := len(s.Points)
	choice := 0
	if idx < len(s.prefix) {
		choice = s.prefix[idx]
		if choice >= len(enabled) {
			s.Diverged = fmt.Sprintf("replay divergence at point %d: choice %d of %d enabled", idx, choice, len(enabled))
			choice = 0
		}
	}
	if len(s.Points) >= s.MaxPoints {
		s.Overflow = true
		choice = 0
	}
	ids := make([]int, len(enabled))
	for i, t := range enabled {
		ids[i] = t.ID
	}
	tid := -1
	if at != nil {
		tid = at.ID
	}
	s.Points = append(s.Points, Point{Enabled: ids, RunningStillEnabled: runningStill, Choice: choice, Kind: kind, Obj: obj, Thread: tid})
	next := enabled[choice]
	s.running = next
	if next == at {
		return true
	}
	next.wake <- struct{}{}
	return false
}

func (s *Sched) park(t *Thread) {
	s.mu.Unlock()
	<-t.wake
	s.mu.Lock()
}

func (s *Sched) acquire(m *Mutex) {
	s.mu.Lock()
	t := s.callerLocked()
	t.Ops++
	t.wantLock = m
	if !s.dispatchLocked(t, "lock", m.ident()) {
		s.park(t)
	}
	// chosen: the chooser verified that m is free
	if m.held {
		s.Diverged = "scheduler granted a held mutex"
	}
	m.held = true
	m.owner = t
	m.sch.Store(s)
	t.wantLock = nil
	s.mu.Unlock()
}

func (s *Sched) release(m *Mutex) {
	s.mu.Lock()
	m.held = false
	m.owner = nil
	m.sch.Store(nil)
	s.mu.Unlock()
}

func (s *Sched) acquireW(m *RWMutex) {
	s.mu.Lock()
	t := s.callerLocked()
	t.Ops++
	t.wantW = m
	if !s.dispatchLocked(t, "wlock", m.w.ident()) {
		s.park(t)
	}
	m.w.held = true
	m.w.owner = t
	m.w.sch.Store(s)
	t.wantW = nil
	s.mu.Unlock()
}

func (s *Sched) acquireR(m *RWMutex) {
	s.mu.Lock()
	t := s.callerLocked()
	t.Ops++
	t.wantR = m
	if !s.dispatchLocked(t, "rlock", m.w.ident()) {
		s.park(t)
	}
	m.readers++
	m.rsch.Store(s)
	t.wantR = nil
	s.mu.Unlock()
}

func (s *Sched) releaseR(m *RWMutex) {
	s.mu.Lock()
	m.readers--
	if m.readers == 0 {
		m.rsch.Store(nil)
	}
	s.mu.Unlock()
}

func (s *Sched) waitZero(w *WaitGroup) {
	s.mu.Lock()
	t := s.callerLocked()
	t.wantWG = w
	if !s.dispatchLocked(t, "wait", 0) {
		s.park(t)
	}
	t.wantWG = nil
	s.mu.Unlock()
}

// Yield is an explicit scheduling point (used by the write hook and by harness bodies).
func Yield(site string) {
	s := active.Load()
	if s == nil {
		return
	}
	s.mu.Lock()
	t := s.callerLocked()
	t.Ops++
	if !s.dispatchLocked(t, "yield:"+site, 0) {
		s.park(t)
	}
	s.mu.Unlock()
}

func (s *Sched) exit(t *Thread) {
	s.mu.Lock()
	t.done = true
	s.dispatchLocked(nil, "exit", 0)
	s.mu.Unlock()
}

// Active tells whether a scheduler is installed.
func Active() bool { return active.Load() != nil }

// Held reports the ids of currently held mutexes (for state keys).
func (s *Sched) ThreadOps() []int {
	out := make([]int, len(s.threads))
	for i, t := range s.threads {
		out[i] = t.Ops
	}
	return out
}
