package main

import (
	_ "verifmc/props/c18"

	"verifmc/internal/xs"
)

func main() { xs.Main() }
