package main

import (
	_ "verifmc/props/c13"

	"verifmc/internal/xs"
)

func main() { xs.Main() }
