package c18

import (
	"verifmc/internal/vnode"
	"verifmc/internal/xs"
)

// ProbeBuild is used by the private probe main only.
func ProbeBuild(c *xs.Ctx, name string) *vnode.Node { setGlobals(); return buildChain(c, name) }
