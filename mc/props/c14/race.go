package c14

import (
	"fmt"
	"os"
	"os/exec"
	"path/filepath"
	"strings"
	"sync"
	"time"

	"github.com/zenon-network/go-zenon/chain/nom"

	"verifmc/internal/ops"
	"verifmc/internal/vnode"
	"verifmc/internal/xs"
)

// RacePass runs the three thread scenarios of Part C with real goroutines, `iters` times each. It is called from the
// -race build (cmd/zmc-race); the race detector itself reports and sets the exit status.
func RacePass(dir string, iters int) int {
	c := &xs.Ctx{ID: "C14", Tier: "quick", Scratch: dir, Deadline: time.Now().Add(10 * time.Minute)}
	r := xs.NewResult()
	e := newSchedEnv(c, r)
	f := e.f
	a := f.addrA
	n := 0
	par := func(bodies ...func()) {
		var wg sync.WaitGroup
		for _, b := range bodies {
			wg.Add(1)
			go func(b func()) { defer wg.Done(); b() }(b)
		}
		wg.Wait()
		n++
	}
	reader := func(nd *vnode.Node) func() {
		return func() {
			for i := 0; i < 3; i++ {
				accountTuple(nd, a)
				poolTuple(nd, a)
				momentumTuple(nd, a)
				// first accesses to accounts without a pool entry (lazily created per-account state) and whole-pool listings,
				// as RPC readers do
				for _, u := range ops.Users[2:10] {
					accountTuple(nd, u.Address)
					nd.Chain.GetUncommittedAccountBlocksByAddress(u.Address)
				}
				nd.Chain.GetAllUncommittedAccountBlocks()
				nd.Chain.GetPatch(f.addrB, f.confB)
			}
		}
	}
	for it := 0; it < iters; it++ {
		// S1
		n1 := e.freshNode(false)
		par(func() { insertOwn(n1, f.blocks["X1"]); mustInsert(n1, f.moms["Ma"]) }, reader(n1), reader(n1))
		n1.Destroy()
		// S3
		n3 := e.freshNode(false)
		insertOwn(n3, f.blocks["X1"])
		mustInsert(n3, f.moms["Ma"])
		insertOwn(n3, f.blocks["X2"])
		par(func() {
			ins := n3.Chain.AcquireInsert("race s3")
			n3.Chain.RollbackTo(ins, f.base[len(f.base)-1].Momentum.Identifier())
			ins.Unlock()
		}, reader(n3), reader(n3))
		n3.Destroy()
		// S2
		n2 := e.freshNode(true)
		insertOwn(n2, f.blocks["X1"])
		par(func() { n2.Produce(0) }, func() { n2.InsertChain(vnode.CloneBatch([]*nom.DetailedMomentum{e.competing})) }, reader(n2))
		n2.Destroy()
	}
	return n
}

// runRacePass executes the -race binary (if it was built) as a child process and turns a race report into a violation.
func runRacePass(c *xs.Ctx, r *xs.Result) {
	bin := filepath.Join(xs.VerifRoot, ".work", "bin", "zmc-race")
	if b := os.Getenv("VERIF_RACE_BIN"); b != "" {
		bin = b // tools/mutcheck.sh points this at the binary built against the candidate change
	}
	if _, err := os.Stat(bin); err != nil {
		r.Note("C14 race pass skipped: %s not built", bin)
		return
	}
	iters := "10"
	if c.Thorough() {
		iters = "100"
	}
	cmd := exec.Command(bin, iters, c.TempDir())
	cmd.Env = append(os.Environ(), "GORACE=halt_on_error=1 exitcode=66")
	out, err := cmd.CombinedOutput()
	code := cmd.ProcessState.ExitCode()
	text := string(out)
	switch {
	case code == 66 || strings.Contains(text, "WARNING: DATA RACE"):
		// key: the two top frames of the report
		var frames []string
		for _, l := range strings.Split(text, "\n") {
			l = strings.TrimSpace(l)
			if strings.HasPrefix(l, "github.com/zenon-network/go-zenon/") && len(frames) < 2 {
				fn := strings.TrimPrefix(l, "github.com/zenon-network/go-zenon/")
				if i := strings.LastIndex(fn, "("); i > 0 {
					fn = fn[:i] // drop the argument list, keep receivers such as (*accountPool)
				}
				frames = append(frames, fn)
			}
		}
		if i := strings.Index(text, "WARNING: DATA RACE"); i >= 0 {
			text = text[i:]
		}
		if len(text) > 2500 {
			text = text[:2500]
		}
		r.Violate("C14:race:"+strings.Join(frames, "|"), "data race reported by the free-running -race pass of the scenario bodies:\n"+text, map[string]interface{}{"part": "race"})
	case err != nil:
		t := text
		if i := strings.Index(t, "panic: "); i >= 0 {
			t = t[i:]
		}
		if len(t) > 3000 {
			t = t[:3000]
		}
		if frame, inNode := xs.CrashSite(t); inNode {
			r.Violate("C14:free-running:node-code-panics:"+frame, "the free-running pass of the scenario bodies died inside go-zenon code:\n"+t, map[string]interface{}{"part": "race"})
			return
		}
		panic(fmt.Sprintf("race pass failed (exit %d): %s", code, tailStr(text, 1500)))
	default:
		var nexec int
		for _, l := range strings.Split(text, "\n") {
			fmt.Sscanf(l, "race-pass executions=%d", &nexec)
		}
		r.Count("race_pass_executions", int64(nexec))
	}
}

func tailStr(s string, n int) string {
	if len(s) > n {
		return s[len(s)-n:]
	}
	return s
}
