// Package c20 — genesis: same configuration, same chain; inconsistent configuration or database refused.
//
//	A  for every generated configuration (consistent by construction): NewGenesis hash / momentum fields / change set
//	   are equal across repeated construction, across every permutation of every list that carries no order, after a JSON
//	   write/read round trip (also through ReadGenesisConfigFromFile), and the full raw store after chain.Init is equal
//	   across fresh child processes; the initial state read back from the store is the one the configuration describes
//	B  every single-entry perturbation of every configuration: whenever the independent predicate says that balances no
//	   longer add up to declared supplies / contract holdings, CheckGenesis and ReadGenesisConfigFromFile must reject
//	C  all ordered pairs (A, B) of a small family of configurations: a store created with A, chain.Init with B fails
//	   <=> hash(A) != hash(B), and never changes a single key of the store
package c20

import (
	"crypto/sha256"
	"encoding/hex"
	"encoding/json"
	"fmt"
	"math/big"
	"os"
	"os/exec"
	"path/filepath"
	"sort"
	"strconv"
	"strings"
	"time"

	"github.com/syndtr/goleveldb/leveldb"

	"github.com/zenon-network/go-zenon/chain"
	"github.com/zenon-network/go-zenon/chain/genesis"
	"github.com/zenon-network/go-zenon/chain/store"
	"github.com/zenon-network/go-zenon/common/db"
	"github.com/zenon-network/go-zenon/common/types"
	"github.com/zenon-network/go-zenon/vm/embedded/definition"

	"verifmc/internal/vnode"
	"verifmc/internal/xs"
)

const childEnv = "VERIF_C20_CHILD"

// ---------------------------------------------------------------------------------------------------------------------
// digests

type digest struct {
	Hash  types.Hash
	Quick string // momentum fields + content + change set
}

func safely(f func()) (panicked interface{}) {
	defer func() { panicked = recover() }()
	f()
	return nil
}

// quickDigest builds the genesis and digests everything NewGenesis produced.
func quickDigest(cfg *genesis.GenesisConfig) (d digest, err error) {
	if p := safely(func() {
		gen := genesis.NewGenesis(cfg)
		m := gen.GetGenesisMomentum()
		tx := gen.GetGenesisTransaction()
		if m.ComputeHash() != m.Hash {
			err = fmt.Errorf("genesis momentum hash %v is not the hash of its fields %v", m.Hash, m.ComputeHash())
			return
		}
		if !gen.IsGenesisMomentum(m.Hash) {
			err = fmt.Errorf("IsGenesisMomentum(own hash) is false")
			return
		}
		h := sha256.New()
		fmt.Fprintf(h, "%d|%d|%v|%v|%d|%d|%x|%v|", m.Version, m.ChainIdentifier, m.Hash, m.PreviousHash, m.Height, m.TimestampUnix, m.Data, m.ChangesHash)
		h.Write(m.Content.Bytes())
		h.Write([]byte("|"))
		h.Write(tx.Changes.Dump())
		d = digest{Hash: m.Hash, Quick: hex.EncodeToString(h.Sum(nil))[:24]}
	}); p != nil {
		err = fmt.Errorf("NewGenesis panicked: %v", p)
	}
	return
}

// rawDigest digests every key/value pair of a closed leveldb directory.
func rawDigest(dir string) (string, int) {
	ldb, err := leveldb.OpenFile(dir, nil)
	if err != nil {
		panic(err)
	}
	defer ldb.Close()
	it := ldb.NewIterator(nil, nil)
	defer it.Release()
	h := sha256.New()
	n := 0
	for it.Next() {
		fmt.Fprintf(h, "%d:%x=%d:%x;", len(it.Key()), it.Key(), len(it.Value()), it.Value())
		n++
	}
	if err := it.Error(); err != nil {
		panic(err)
	}
	return hex.EncodeToString(h.Sum(nil))[:24], n
}

// startNode does what a node does with its chain at start-up: open the store, build the chain with the configured
// genesis, Init. The store is closed again before returning. inspect, if given, runs on the started chain.
func startNode(dir string, cfg *genesis.GenesisConfig, inspect func(chain.Chain)) (err error, panicked interface{}) {
	gen := genesis.NewGenesis(cfg)
	mgr := db.NewLevelDBManager(dir)
	ch := chain.NewChain(mgr, gen)
	panicked = safely(func() { err = ch.Init() })
	if panicked == nil && err == nil && inspect != nil {
		inspect(ch)
	}
	if serr := ch.Stop(); serr != nil {
		panic(serr)
	}
	return
}

// fullDigest = hash + quick digest + digest of the raw store after a start on an empty directory.
func fullDigest(c *xs.Ctx, cfg *genesis.GenesisConfig) (string, error) {
	d, err := quickDigest(cfg)
	if err != nil {
		return "", err
	}
	dir := c.TempDir()
	defer os.RemoveAll(dir)
	if err, p := startNode(dir, cfg, nil); err != nil || p != nil {
		return "", fmt.Errorf("start on an empty store failed: err=%v panic=%v", err, p)
	}
	raw, n := rawDigest(dir)
	return fmt.Sprintf("%v/%s/%s/%d", d.Hash, d.Quick, raw, n), nil
}

// ---------------------------------------------------------------------------------------------------------------------
// replay objects

type Case struct {
	Kind  string `json:"kind"` // repeat | perm | allperm | json | file | process | state | pert | pair | content
	Shape Shape  `json:"shape"`
	List  string `json:"list,omitempty"`
	Perm  []int  `json:"perm,omitempty"`
	Mode  string `json:"mode,omitempty"` // allperm: reverse | rotate
	Pert  string `json:"pert,omitempty"`
	A     string `json:"a,omitempty"`
	B     string `json:"b,omitempty"`
	H     int    `json:"height,omitempty"`
}

type env struct {
	c *xs.Ctx
	r *xs.Result
}

func (e *env) violate(cs Case, key, format string, a ...interface{}) {
	e.r.Violate("C20:"+key, fmt.Sprintf(format, a...), cs)
}

// ---------------------------------------------------------------------------------------------------------------------
// part A

func (e *env) runRepeat(s Shape) (digest, bool) {
	cs := Case{Kind: "repeat", Shape: s}
	d0, err := quickDigest(build(s))
	e.r.Count("construct_evals", 1)
	if err != nil {
		e.violate(cs, "construct-failed", "%v", err)
		return d0, false
	}
	base := build(s)
	for i := 0; i < 3; i++ {
		cfg := base
		if i == 2 {
			cfg = clone(base)
		}
		d, err := quickDigest(cfg) // i = 0,1: the same configuration object twice; i = 2: a deep copy
		e.r.Count("construct_evals", 1)
		if err != nil || d != d0 {
			e.violate(cs, "construction-not-repeatable", "configuration "+s.Name()+": building the genesis of the same configuration again gives %v/%s, first %v/%s (err %v)", d.Hash, d.Quick, d0.Hash, d0.Quick, err)
			return d0, false
		}
	}
	e.r.Add("genesis_hashes", d0.Hash.String())
	return d0, true
}

func (e *env) runPerm(s Shape, list string, p []int, d0 digest) {
	cs := Case{Kind: "perm", Shape: s, List: list, Perm: p}
	cfg := clone(build(s))
	permute(cfg, list, p)
	d, err := quickDigest(cfg)
	e.r.Count("perm_evals", 1)
	e.r.Count("perm_evals_"+list, 1)
	if err != nil || d != d0 {
		e.violate(cs, "order-dependent:"+list, "configuration %s with list %q reordered by %v: genesis %v/%s, original order %v/%s (err %v)", s.Name(), list, p, d.Hash, d.Quick, d0.Hash, d0.Quick, err)
	}
}

func (e *env) runAllPerm(s Shape, mode string, d0 digest) {
	cs := Case{Kind: "allperm", Shape: s, Mode: mode}
	cfg := clone(build(s))
	for _, l := range listNames {
		n := listLen(cfg, l)
		if n < 2 {
			continue
		}
		if mode == "reverse" {
			permute(cfg, l, reversal(n))
		} else {
			permute(cfg, l, rotation(n))
		}
	}
	d, err := quickDigest(cfg)
	e.r.Count("perm_evals", 1)
	if err != nil || d != d0 {
		e.violate(cs, "order-dependent:all-lists-"+mode, "configuration %s with every list %sd: genesis %v/%s, original %v/%s (err %v)", s.Name(), mode, d.Hash, d.Quick, d0.Hash, d0.Quick, err)
	}
}

func (e *env) runJSON(s Shape, d0 digest) {
	cs := Case{Kind: "json", Shape: s}
	base := build(s)
	data, err := json.Marshal(base)
	if err != nil {
		panic(err)
	}
	back := new(genesis.GenesisConfig)
	if err := json.Unmarshal(data, back); err != nil {
		e.violate(cs, "json-unreadable", "configuration written as JSON cannot be read back: %v", err)
		return
	}
	d, err := quickDigest(back)
	e.r.Count("json_evals", 1)
	if err != nil || d != d0 {
		e.violate(cs, "json-roundtrip-changes-genesis", "configuration %s after JSON write/read: genesis %v/%s, before %v/%s (err %v)", s.Name(), d.Hash, d.Quick, d0.Hash, d0.Quick, err)
		return
	}
	// the node's own loader
	path := filepath.Join(e.c.TempDir(), "genesis.json")
	if err := os.WriteFile(path, data, 0o644); err != nil {
		panic(err)
	}
	var gen store.Genesis
	if p := safely(func() { gen, err = genesis.ReadGenesisConfigFromFile(path) }); p != nil || err != nil || gen == nil {
		e.violate(cs, "genesis-file-refused", "ReadGenesisConfigFromFile refuses a consistent configuration: err=%v panic=%v", err, p)
		return
	}
	e.r.Count("json_evals", 1)
	if gen.GetGenesisMomentum().Hash != d0.Hash {
		e.violate(cs, "genesis-file-changes-genesis", "configuration %s loaded by ReadGenesisConfigFromFile: hash %v, built directly %v", s.Name(), gen.GetGenesisMomentum().Hash, d0.Hash)
	}
}

// runState starts a chain on the configuration and compares what the store answers with the configuration.
func (e *env) runState(cs Case, name, class string, cfg *genesis.GenesisConfig, exact bool) bool {
	var problems []string
	bad := func(format string, a ...interface{}) { problems = append(problems, fmt.Sprintf(format, a...)) }
	dir := e.c.TempDir()
	defer os.RemoveAll(dir)
	e.r.Count("state_evals", 1)
	err, p := startNode(dir, cfg, func(ch chain.Chain) {
		st := ch.GetFrontierMomentumStore()
		fm, err := st.GetFrontierMomentum()
		if err != nil || fm.Height != 1 {
			bad("frontier after start is not height 1 (%v)", err)
			return
		}
		// content = one genesis block per configured address and per configured contract
		wantAddrs := map[types.Address]bool{types.PillarContract: true, types.TokenContract: true, types.PlasmaContract: true, types.SwapContract: true}
		if cfg.SporkConfig != nil {
			wantAddrs[types.SporkContract] = true
		}
		for _, b := range cfg.GenesisBlocks.Blocks {
			wantAddrs[b.Address] = true
		}
		gotAddrs := map[types.Address]bool{}
		for _, h := range fm.Content {
			if gotAddrs[h.Address] || h.Height != 1 {
				bad("content lists %v twice or at height %d", h.Address, h.Height)
			}
			gotAddrs[h.Address] = true
		}
		if exact && len(gotAddrs) != len(wantAddrs) {
			bad("content has %d accounts, configuration names %d", len(gotAddrs), len(wantAddrs))
		}
		for a := range wantAddrs {
			if exact && !gotAddrs[a] {
				bad("no genesis block for %v", a)
			}
		}
		// balances
		totals := map[types.ZenonTokenStandard]*big.Int{}
		for a := range gotAddrs {
			bm, err := st.GetAccountStore(a).GetBalanceMap()
			if err != nil {
				bad("balances of %v: %v", a, err)
				continue
			}
			for zts, v := range bm {
				if totals[zts] == nil {
					totals[zts] = new(big.Int)
				}
				totals[zts].Add(totals[zts], v)
			}
			if exact {
				for _, b := range cfg.GenesisBlocks.Blocks {
					if b.Address != a {
						continue
					}
					for zts, v := range b.BalanceList {
						if bm[zts] == nil || bm[zts].Cmp(v) != 0 {
							bad("%v holds %v of %v, configured %v", a, bm[zts], zts, v)
						}
					}
					for zts, v := range bm {
						if b.BalanceList[zts] == nil && v.Sign() != 0 {
							bad("%v holds %v of %v, not configured", a, v, zts)
						}
					}
				}
			}
		}
		for _, t := range cfg.TokenConfig.Tokens {
			ti, err := st.GetTokenInfoByTs(t.TokenStandard)
			if err != nil || ti == nil {
				bad("token %v not stored: %v", t.TokenStandard, err)
				continue
			}
			if exact && (ti.TotalSupply.Cmp(t.TotalSupply) != 0 || ti.MaxSupply.Cmp(t.MaxSupply) != 0 || ti.Owner != t.Owner || ti.TokenName != t.TokenName || ti.TokenSymbol != t.TokenSymbol ||
				ti.TokenDomain != t.TokenDomain || ti.Decimals != t.Decimals || ti.IsMintable != t.IsMintable || ti.IsBurnable != t.IsBurnable || ti.IsUtility != t.IsUtility) {
				bad("stored token %v differs from the configured one", t.TokenStandard)
			}
			have := totals[t.TokenStandard]
			if have == nil {
				have = new(big.Int)
			}
			if ti.TotalSupply.Cmp(have) != 0 {
				bad("stored total supply of %v is %v, balances in the store add up to %v", t.TokenStandard, ti.TotalSupply, have)
			}
		}
		// contract holdings
		pillars, err := definition.GetPillarsList(st.GetAccountStore(types.PillarContract).Storage(), false, definition.AnyPillarType)
		if err != nil {
			bad("pillar list: %v", err)
		}
		staked := new(big.Int)
		for _, pl := range pillars {
			staked.Add(staked, pl.Amount)
		}
		if exact && len(pillars) != len(cfg.PillarConfig.Pillars) {
			bad("%d pillars stored, %d configured", len(pillars), len(cfg.PillarConfig.Pillars))
		}
		if bal, _ := st.GetAccountStore(types.PillarContract).GetBalance(types.ZnnTokenStandard); bal.Cmp(staked) != 0 {
			bad("pillar contract holds %v ZNN, stored pillars lock %v", bal, staked)
		}
		fused := new(big.Int)
		owners := map[types.Address]bool{}
		perBeneficiary := map[types.Address]*big.Int{}
		for _, f := range cfg.PlasmaConfig.Fusions {
			owners[f.Owner] = true
		}
		plasma := st.GetAccountStore(types.PlasmaContract).Storage()
		nf := 0
		for o := range owners {
			list, total, err := definition.GetFusionInfoListByOwner(plasma, o)
			if err != nil {
				bad("fusions of %v: %v", o, err)
				continue
			}
			fused.Add(fused, total)
			nf += len(list)
			for _, f := range list {
				if perBeneficiary[f.Beneficiary] == nil {
					perBeneficiary[f.Beneficiary] = new(big.Int)
				}
				perBeneficiary[f.Beneficiary].Add(perBeneficiary[f.Beneficiary], f.Amount)
			}
		}
		if exact && nf != len(cfg.PlasmaConfig.Fusions) {
			bad("%d fusion entries stored, %d configured", nf, len(cfg.PlasmaConfig.Fusions))
		}
		if bal, _ := st.GetAccountStore(types.PlasmaContract).GetBalance(types.QsrTokenStandard); bal.Cmp(fused) != 0 {
			bad("plasma contract holds %v QSR, stored fusion entries lock %v", bal, fused)
		}
		for b, want := range perBeneficiary {
			fa, err := definition.GetFusedAmount(plasma, b)
			if err != nil || fa.Amount.Cmp(want) != 0 {
				bad("fused amount of beneficiary %v is %v, entries add up to %v (%v)", b, fa, want, err)
			}
		}
		if exact {
			sporks, err := st.GetAllDefinedSporks()
			want := 0
			if cfg.SporkConfig != nil {
				want = len(cfg.SporkConfig.Sporks)
			}
			if err != nil || len(sporks) != want {
				bad("%d sporks stored, %d configured (%v)", len(sporks), want, err)
			}
			dl, err := definition.GetDelegationsList(st.GetAccountStore(types.PillarContract).Storage())
			if err != nil || len(dl) != len(cfg.PillarConfig.Delegations) {
				bad("%d delegations stored, %d configured (%v)", len(dl), len(cfg.PillarConfig.Delegations), err)
			}
		}
	})
	if err != nil || p != nil {
		bad("start failed: err=%v panic=%v", err, p)
	}
	if len(problems) > 0 {
		e.violate(cs, "initial-state-not-as-configured:"+class, "configuration %s accepted by CheckGenesis, but the initial state does not add up: %s", name, strings.Join(problems, "; "))
		return false
	}
	e.r.Count("state_ok", 1)
	return true
}

// ---------------------------------------------------------------------------------------------------------------------
// child processes

func runChild(c *xs.Ctx, r *xs.Result, spec string) {
	var shapes []Shape
	if err := json.Unmarshal([]byte(spec), &shapes); err != nil {
		panic(err)
	}
	for _, s := range shapes {
		d, err := fullDigest(c, build(s))
		if err != nil {
			d = "error: " + err.Error()
		}
		r.Add("child", s.Name()+"="+d)
	}
}

// spawn runs this binary again as a worker of this check in child mode and returns name -> digest.
func spawn(c *xs.Ctx, shapes []Shape, n int) map[string]string {
	spec, _ := json.Marshal(shapes)
	dir := c.TempDir()
	defer os.RemoveAll(dir)
	out := filepath.Join(dir, "out.json")
	scratch := filepath.Join(dir, "scratch")
	os.MkdirAll(scratch, 0o755)
	cmd := exec.Command(os.Args[0], "--worker", "C20", c.Tier, "0", "1", out, scratch, strconv.FormatInt(c.Deadline.UnixNano(), 10))
	cmd.Env = append(os.Environ(), childEnv+"="+string(spec), "VERIF_C20_CHILD_NO="+strconv.Itoa(n))
	if b, err := cmd.CombinedOutput(); err != nil {
		panic(fmt.Sprintf("child process failed: %v\n%s", err, lastBytes(b, 2000)))
	}
	data, err := os.ReadFile(out)
	if err != nil {
		panic(err)
	}
	res := xs.NewResult()
	if err := json.Unmarshal(data, res); err != nil {
		panic(err)
	}
	if res.Broken != "" {
		panic("child process broken: " + res.Broken)
	}
	m := map[string]string{}
	for el := range res.Sets["child"] {
		i := strings.IndexByte(el, '=')
		m[el[:i]] = el[i+1:]
	}
	return m
}

func lastBytes(b []byte, n int) string {
	if len(b) > n {
		b = b[len(b)-n:]
	}
	return string(b)
}

func (e *env) runProcess(shapes []Shape, children int) {
	if len(shapes) == 0 {
		return
	}
	own := map[string]string{}
	builtAt := int64(0)
	for _, s := range shapes {
		if s.TS0 != 0 {
			builtAt = time.Now().Unix()
		}
		d, err := fullDigest(e.c, build(s))
		e.r.Count("full_digest_evals", 1)
		if err != nil {
			e.violate(Case{Kind: "process", Shape: s}, "start-on-empty-store-failed", "configuration %s: %v", s.Name(), err)
			continue
		}
		own[s.Name()] = d
		// and once more in this process, on another directory
		d2, err := fullDigest(e.c, build(s))
		e.r.Count("full_digest_evals", 1)
		if err != nil || d2 != d {
			e.violate(Case{Kind: "process", Shape: s}, "store-differs:same-process", "configuration %s: raw store after start %s, second time %s (%v)", s.Name(), d, d2, err)
		}
	}
	for builtAt != 0 && time.Now().Unix() <= builtAt {
		time.Sleep(50 * time.Millisecond) // at most one second; never part of a verdict, only of when the children start
	}
	for k := 0; k < children; k++ {
		got := spawn(e.c, shapes, k)
		e.r.Count("child_processes", 1)
		for _, s := range shapes {
			if own[s.Name()] == "" {
				continue
			}
			e.r.Count("full_digest_evals", 1)
			e.r.Count("cross_process_comparisons", 1)
			if got[s.Name()] != own[s.Name()] {
				e.violate(Case{Kind: "process", Shape: s}, "genesis-differs-across-processes", "configuration %s: hash/content/state %s in this process, %s in a fresh process", s.Name(), own[s.Name()], got[s.Name()])
			}
		}
	}
}

// ---------------------------------------------------------------------------------------------------------------------
// part B

func safeCheck(cfg *genesis.GenesisConfig) (err error, panicked interface{}) {
	panicked = safely(func() { err = genesis.CheckGenesis(cfg) })
	return
}

func (e *env) runPert(s Shape, p pert, baseHash types.Hash) {
	r := e.r
	cs := Case{Kind: "pert", Shape: s, Pert: p.Name}
	cfg := clone(build(s))
	p.Apply(cfg)
	consistent, reason := refConsistent(cfg)
	err, pan := safeCheck(cfg)
	r.Count("pert_evals", 1)
	r.Add("pert_classes", p.Class)

	// the node's loader on the same configuration
	var fileGen store.Genesis
	var fileErr error
	var filePan interface{}
	data, jerr := json.Marshal(cfg)
	if jerr != nil {
		panic(jerr)
	}
	path := filepath.Join(e.c.TempDir(), "genesis.json")
	if werr := os.WriteFile(path, data, 0o644); werr != nil {
		panic(werr)
	}
	filePan = safely(func() { fileGen, fileErr = genesis.ReadGenesisConfigFromFile(path) })
	os.RemoveAll(filepath.Dir(path))
	r.Count("pert_file_evals", 1)

	if !consistent {
		r.Count("pert_inconsistent", 1)
		switch {
		case pan != nil:
			e.violate(cs, "check-genesis-panics:"+p.Class, "CheckGenesis panics on configuration %s with %s (%s): %v", s.Name(), p.Name, reason, pan)
		case err == nil:
			r.Count("pert_inconsistent_accepted", 1)
			e.violate(cs, "inconsistent-config-accepted:"+p.Class+":"+reason, "CheckGenesis returns nil for configuration %s (consistent by construction) after the single edit %q, although the independent sum predicate reports %s; ReadGenesisConfigFromFile: genesis=%v err=%v",
				s.Name(), p.Name, reason, fileGen != nil, fileErr)
		default:
			r.Count("pert_rejected", 1)
			if r.Add("rejected_classes", p.Class+"/"+reason) && e.c.Shard == 0 && len(r.Samples) < 2 {
				r.Sample(map[string]interface{}{"configuration": s.Name(), "edit": p.Name, "class": p.Class, "predicate": reason, "CheckGenesis": err.Error()})
			}
		}
		switch {
		case filePan != nil:
			e.violate(cs, "genesis-file-panics:"+p.Class, "ReadGenesisConfigFromFile panics on %s with %s: %v", s.Name(), p.Name, filePan)
		case fileErr == nil || fileGen != nil:
			if err != nil || pan != nil {
				// CheckGenesis itself refused, so this is the loader's own fault (e.g. a swallowed panic)
				e.violate(cs, "genesis-file-not-refused:"+p.Class, "ReadGenesisConfigFromFile returns (%v, %v) for %s with %s, which CheckGenesis refuses with %v", fileGen, fileErr, s.Name(), p.Name, err)
			}
		default:
			r.Count("pert_file_rejected", 1)
		}
		return
	}
	// still consistent: nothing is demanded; record, and make sure that what is accepted really adds up in the store
	r.Count("pert_still_consistent", 1)
	r.Add("still_consistent_classes", p.Class)
	if err != nil || pan != nil {
		r.Count("pert_consistent_but_rejected", 1)
		r.Add("consistent_but_rejected_classes", p.Class)
		return
	}
	r.Count("pert_consistent_accepted", 1)
	d, derr := quickDigest(cfg)
	if derr != nil {
		e.violate(cs, "accepted-config-does-not-build:"+p.Class, "configuration %s with %s passes CheckGenesis but NewGenesis fails: %v", s.Name(), p.Name, derr)
		return
	}
	if fileGen != nil && fileGen.GetGenesisMomentum().Hash != d.Hash {
		e.violate(cs, "genesis-file-changes-genesis", "configuration %s with %s: hash %v through the loader, %v built directly", s.Name(), p.Name, fileGen.GetGenesisMomentum().Hash, d.Hash)
	}
	if d.Hash != baseHash {
		r.Count("pert_accepted_hash_changed", 1)
	} else {
		r.Count("pert_accepted_hash_same", 1)
	}
	e.runState(cs, s.Name()+" + "+p.Name, "after:"+p.Class, cfg, false)
}

// ---------------------------------------------------------------------------------------------------------------------
// part C

type namedCfg struct {
	Name string
	Cfg  func() *genesis.GenesisConfig
}

var pairShapeA = Shape{Acc: 2, Tok: 1, Pil: 2, Fus: 2, Swap: 1, Spork: 2, Del: 2, Leg: 1}
var pairShapeB = Shape{Acc: 4, Tok: 2, Pil: 3, Fus: 0, Swap: 0, Spork: 0, Del: 2, Leg: 1}

func pairConfigs() []namedCfg {
	base := func() *genesis.GenesisConfig { return build(pairShapeA) }
	return []namedCfg{
		{"base", base},
		{"base-lists-reversed", func() *genesis.GenesisConfig {
			c := base()
			for _, l := range listNames {
				if n := listLen(c, l); n >= 2 {
					permute(c, l, reversal(n))
				}
			}
			return c
		}},
		{"extra-data", func() *genesis.GenesisConfig { c := base(); c.ExtraData += "!"; return c }},
		{"chain-id+1", func() *genesis.GenesisConfig { c := base(); c.ChainIdentifier++; return c }},
		{"timestamp+1", func() *genesis.GenesisConfig { c := base(); c.GenesisTimestampSec++; return c }},
		{"one-znn-moved", func() *genesis.GenesisConfig {
			c := base()
			var u0, u1 *genesis.GenesisBlockConfig
			for _, b := range c.GenesisBlocks.Blocks {
				if b.Address == userAddr(0) {
					u0 = b
				}
				if b.Address == userAddr(1) {
					u1 = b
				}
			}
			u0.BalanceList[types.ZnnTokenStandard].Sub(u0.BalanceList[types.ZnnTokenStandard], bi(1))
			u1.BalanceList[types.ZnnTokenStandard].Add(u1.BalanceList[types.ZnnTokenStandard], bi(1))
			return c
		}},
		{"swap-entry+1", func() *genesis.GenesisConfig {
			c := base()
			c.SwapConfig.Entries[0].Znn.Add(c.SwapConfig.Entries[0].Znn, bi(1))
			return c
		}},
		{"spork-admin-changed", func() *genesis.GenesisConfig {
			c := base()
			a := addrOf("other-spork-admin")
			c.SporkAddress = &a
			return c
		}},
		{"other-shape", func() *genesis.GenesisConfig { return build(pairShapeB) }},
	}
}

func (e *env) runPair(a, b namedCfg, height int) {
	r := e.r
	cs := Case{Kind: "pair", A: a.Name, B: b.Name, H: height}
	pair := fmt.Sprintf("%s->%s", a.Name, b.Name)
	r.Count("pair_evals", 1)
	da, err := quickDigest(a.Cfg())
	if err != nil {
		panic(err)
	}
	dbb, err := quickDigest(b.Cfg())
	if err != nil {
		panic(err)
	}
	for _, nc := range []namedCfg{a, b} {
		if cerr, p := safeCheck(nc.Cfg()); cerr != nil || p != nil {
			panic(fmt.Sprintf("pair configuration %s is not accepted by CheckGenesis: %v %v", nc.Name, cerr, p))
		}
	}
	root := e.c.TempDir()
	defer os.RemoveAll(root)
	dir := filepath.Join(root, "nom")
	if height <= 1 {
		if err, p := startNode(dir, a.Cfg(), nil); err != nil || p != nil {
			e.violate(cs, "start-on-empty-store-failed:"+a.Name, "err=%v panic=%v", err, p)
			return
		}
	} else {
		// a node that has produced momentums on top of genesis A
		n := vnode.New(vnode.Options{Dir: root, Genesis: a.Cfg()})
		for n.Height() < uint64(height) {
			if _, err := n.Produce(0); err != nil {
				panic(fmt.Sprintf("cannot extend the chain of %s: %v", a.Name, err))
			}
		}
		n.Stop()
	}
	before, nkeys := rawDigest(dir)
	var frontier types.HashHeight
	var first types.Hash
	errB, panB := startNode(dir, b.Cfg(), func(ch chain.Chain) {
		st := ch.GetFrontierMomentumStore()
		frontier = st.Identifier()
		if m, err := st.GetMomentumByHeight(1); err == nil {
			first = m.Hash
		}
	})
	after, _ := rawDigest(dir)
	same := da.Hash == dbb.Hash
	switch {
	case panB != nil:
		e.violate(cs, "start-panics:"+pair, "chain.Init panicked: %v", panB)
		return
	case same && errB != nil:
		e.violate(cs, "start-refused-on-own-store:"+pair, "store created with %s (genesis %v, height %d); start with %s (same genesis hash) fails: %v", a.Name, da.Hash, height, b.Name, errB)
		return
	case !same && errB == nil:
		e.violate(cs, "start-accepted-on-foreign-store:"+pair, "store created with %s (genesis %v, height %d); start with %s (genesis %v) succeeds", a.Name, da.Hash, height, b.Name, dbb.Hash)
		return
	}
	if same {
		r.Count("pair_accepted", 1)
		if frontier.Height != uint64(height) || first != da.Hash {
			e.violate(cs, "start-on-own-store-wrong-frontier:"+pair, "after the start the frontier is %v and momentum 1 is %v; expected height %d on genesis %v", frontier, first, height, da.Hash)
			return
		}
	} else {
		r.Count("pair_refused", 1)
		if r.Add("refusal_messages", errB.Error()) && e.c.Shard == 0 {
			r.Sample(map[string]interface{}{"store_created_with": a.Name, "started_with": b.Name, "height": height, "hash_a": da.Hash.String(), "hash_b": dbb.Hash.String(), "init_error": errB.Error()})
		}
	}
	if after != before {
		e.violate(cs, "store-modified-by-start:"+pair, "store of %s (%d keys, digest %s) has digest %s after a start with %s (refused=%v)", a.Name, nkeys, before, after, b.Name, errB != nil)
		return
	}
	// the store is still good for its own configuration
	if err, p := startNode(dir, a.Cfg(), nil); err != nil || p != nil {
		e.violate(cs, "store-unusable-after-refused-start:"+pair, "start with the original configuration fails afterwards: err=%v panic=%v", err, p)
		return
	}
	if again, _ := rawDigest(dir); again != before {
		e.violate(cs, "store-modified-by-start:"+pair, "store digest changed by the final start with the original configuration")
		return
	}
	r.Count("pair_ok", 1)
}

// ---------------------------------------------------------------------------------------------------------------------
// bounds

// degenerate: configurations without pillars (and therefore without a pillar-contract block)
var degenerate = []Shape{
	{Acc: 2, Tok: 1, Pil: 0, Fus: 0, Swap: 0, Spork: 0, Del: 0, Leg: 0},
	{Acc: 2, Tok: 1, Pil: 0, Fus: 2, Swap: 2, Spork: 2, Del: 0, Leg: 2},
	// configurations that name no genesis time: the genesis is still a function of the configuration alone (the child
	// processes that rebuild it are started in a later wall-clock second than the one in which this process built it)
	{Acc: 2, Tok: 1, Pil: 2, Fus: 0, Swap: 0, Spork: 0, Del: 2, Leg: 0, TS0: 1},
	{Acc: 4, Tok: 2, Pil: 3, Fus: 3, Swap: 2, Spork: 2, Del: 2, Leg: 2, TS0: 1},
}

func shapesFor(thorough bool) []Shape {
	var out []Shape
	if !thorough {
		for _, acc := range []int{2, 4} {
			for _, tok := range []int{1, 2} {
				for _, pil := range []int{2, 3} {
					for _, fus := range []int{0, 3} {
						for _, sw := range []int{0, 2} {
							for _, sp := range []int{0, 2} {
								out = append(out, Shape{Acc: acc, Tok: tok, Pil: pil, Fus: fus, Swap: sw, Spork: sp, Del: 2, Leg: 2})
							}
						}
					}
				}
			}
		}
		return append(out, degenerate...)
	}
	out = append(out, degenerate...)
	for _, acc := range []int{2, 4} {
		for _, tok := range []int{1, 2} {
			for _, pil := range []int{2, 3, 4} {
				for _, fus := range []int{0, 2, 3} {
					for _, sw := range []int{0, 1, 3} {
						for _, sp := range []int{0, 1, 2} {
							for _, del := range []int{0, 3} {
								for _, leg := range []int{0, 2} {
									out = append(out, Shape{Acc: acc, Tok: tok, Pil: pil, Fus: fus, Swap: sw, Spork: sp, Del: del, Leg: leg})
								}
							}
						}
					}
				}
			}
		}
	}
	return out
}

// ---------------------------------------------------------------------------------------------------------------------

func findPert(s Shape, name string) (pert, bool) {
	for _, p := range perturbations(build(s)) {
		if p.Name == name {
			return p, true
		}
	}
	return pert{}, false
}

func findPair(name string) namedCfg {
	for _, nc := range pairConfigs() {
		if nc.Name == name {
			return nc
		}
	}
	panic("unknown pair configuration " + name)
}

func (e *env) replay(cs Case) {
	e.r.Count("replay_mode", 1)
	s := cs.Shape
	switch cs.Kind {
	case "repeat":
		e.runRepeat(s)
	case "perm":
		d0, _ := quickDigest(build(s))
		e.runPerm(s, cs.List, cs.Perm, d0)
	case "allperm":
		d0, _ := quickDigest(build(s))
		e.runAllPerm(s, cs.Mode, d0)
	case "json":
		d0, _ := quickDigest(build(s))
		e.runJSON(s, d0)
	case "state":
		e.runState(cs, s.Name(), "generated", build(s), true)
	case "process":
		e.runProcess([]Shape{s}, 5)
	case "pert":
		p, ok := findPert(s, cs.Pert)
		if !ok {
			panic("unknown perturbation " + cs.Pert)
		}
		d0, _ := quickDigest(build(s))
		e.runPert(s, p, d0.Hash)
	case "pair":
		e.runPair(findPair(cs.A), findPair(cs.B), cs.H)
	default:
		panic("unknown case kind " + cs.Kind)
	}
}

func runC20(c *xs.Ctx, r *xs.Result) {
	vnode.Quiet()
	if spec := os.Getenv(childEnv); spec != "" {
		runChild(c, r, spec)
		return
	}
	e := &env{c: c, r: r}
	if c.Replay != nil {
		var cs Case
		if err := json.Unmarshal(c.Replay, &cs); err != nil {
			panic(err)
		}
		e.replay(cs)
		return
	}
	shapes := shapesFor(c.Thorough())
	children := 2
	heights := []int{1, 3}
	if c.Thorough() {
		children = 5
	}
	expired := func() bool {
		if c.Expired() {
			r.Incomplete = true
			return true
		}
		return false
	}

	// part C first (few, slow cases)
	pcs := pairConfigs()
	item := 0
	for _, h := range heights {
		for _, a := range pcs {
			for _, b := range pcs {
				mine := c.Mine(item)
				item++
				if !mine || expired() {
					continue
				}
				e.runPair(a, b, h)
			}
		}
	}

	// parts A and B per configuration
	var mineShapes []Shape
	for i, s := range shapes {
		if !c.Mine(i) {
			continue
		}
		if expired() {
			break
		}
		mineShapes = append(mineShapes, s)
		r.Count("configs", 1)
		if cerr, p := safeCheck(build(s)); cerr != nil || p != nil {
			e.violate(Case{Kind: "repeat", Shape: s}, "consistent-config-refused", "CheckGenesis refuses a configuration that is consistent by construction: %v %v", cerr, p)
		}
		if ok, why := refConsistent(build(s)); !ok {
			panic("generator produced an inconsistent configuration: " + s.Name() + " " + why)
		}
		r.Count("configs_accepted", 1)
		d0, _ := e.runRepeat(s) // on a violation the enumeration goes on against the first digest
		base := build(s)
		for _, l := range listNames {
			n := listLen(base, l)
			if n < 2 {
				continue
			}
			r.Add("permuted_lists", l)
			for _, p := range allPerms(n)[1:] {
				e.runPerm(s, l, p, d0)
			}
		}
		e.runAllPerm(s, "reverse", d0)
		e.runAllPerm(s, "rotate", d0)
		e.runJSON(s, d0)
		e.runState(Case{Kind: "state", Shape: s}, s.Name(), "generated", build(s), true)
		for _, p := range perturbations(base) {
			e.runPert(s, p, d0.Hash)
		}
	}
	// fresh processes: this worker's configurations (the first 4 of them in the thorough tier, where the list is long,
	// plus, in every worker, the two pair shapes so that all 16 workers and their children meet on the same inputs)
	procShapes := mineShapes
	if c.Thorough() && len(procShapes) > 4 {
		procShapes = procShapes[:4]
	}
	if !expired() {
		e.runProcess(append(append([]Shape{}, procShapes...), pairShapeA, pairShapeB), children)
		for _, s := range []Shape{pairShapeA, pairShapeB} {
			if d, err := fullDigest(c, build(s)); err == nil {
				r.Add("xworker", s.Name()+"="+d)
				r.Count("xworker_evals", 1)
			}
		}
	}
	if c.Shard == 0 {
		d, _ := quickDigest(build(pairShapeA))
		r.Sample(map[string]interface{}{"config": pairShapeA.Name(), "genesis_hash": d.Hash.String(), "digest": d.Quick})
	}
}

func init() {
	xs.Register(&xs.Check{
		ID:    "C20",
		Level: "exploration",
		Shards: func(tier string) int {
			return 16
		},
		Budget: func(tier string) time.Duration {
			if tier == "thorough" {
				return 20 * time.Minute
			}
			return 3 * time.Minute
		},
		Assumptions: []string{
			"configurations are generated, not random: quick = {2,4} accounts x {1,2} extra tokens x {2,3} pillars x {0,3} fusions (two of the three share a beneficiary) x {0,2} swap entries x {no spork section, 2 sporks} with 2 delegations and 2 legacy entries (64) plus 2 configurations without pillars; thorough adds pillars 4, fusions 2, swap entries {1,3}, empty spork list, delegations {0,3}, legacy entries {0,2} (1296); all storage keys inside one configuration are distinct, so no list carries an order",
			"order independence: every permutation of one list at a time (lists of at most 6 entries, i.e. at most 720 orders) plus all lists reversed and all lists rotated together; balance maps are Go maps and are iterated in a fresh random order on every construction",
			"process independence: every worker is its own process and re-executes this binary as child processes (2 quick, 5 thorough) that rebuild the genesis and a store from the shape alone; additionally all 16 workers compute two fixed configurations and the driver requires a single value",
			"full initial state = every key/value pair of the leveldb store after chain.Init on an empty directory (read after closing the store)",
			"consistency oracle (configuration level): balances of every declared token add up to its total supply, no undeclared token has a balance, pillar contract ZNN = sum of pillar amounts, plasma contract QSR = sum of fusion amounts, swap contract holds nothing; rejection is demanded only when this predicate fails; perturbations that keep it true (swap-entry amounts, duplicated token declaration, removed delegation/spork/swap entry, spork section/admin nil) are recorded and, when accepted, the resulting store is checked to add up",
			"single-entry perturbations: +1/-1 on every balance, fusion amount, pillar amount, total supply, swap amount; remove / duplicate every block, pillar, fusion, token; drop every balance-map entry; add one fusion, pillar, user block, plasma-contract block (when none), swap-contract block, undeclared-token balance, token nobody holds, swap entry; nil / empty sections",
			"database pairs: 9 configurations (base, same with all lists reversed, and 7 that differ in one field or in shape), all 81 ordered pairs, stores at height 1 (chain.Init only) and at height 3 (a real node produced two momentums); 'untouched' is judged on key/value content, not on leveldb's file bytes (opening a leveldb rewrites its manifest and log files)",
			"process globals: loggers silenced and common.Clock replaced by the harness clock (vnode.Quiet); chain.Init sets types.SporkAddress; spork ids and ImplementedSporksMap are left at their defaults; no configuration activates a spork that is not implemented (chain.Init would os.Exit)",
		},
		Rule: "cases are enumerated, never sampled: every generated configuration x (3 rebuilds, every permutation of each order-free list, all lists reversed/rotated, JSON and genesis-file round trip, store built in this and in child processes) x every single-entry perturbation; every ordered pair of 9 configurations x store heights {1,3}. Oracle (accept <=> reference): (a) one genesis hash/content/change-set/raw-store per configuration over all orders, encodings and processes, and the store answers what the configuration says; (b) CheckGenesis / ReadGenesisConfigFromFile reject every perturbed configuration the independent sum predicate calls inconsistent; (c) chain.Init on a store created with A under configuration B fails iff hash(A) != hash(B) and leaves every key of the store unchanged. distinct_nontrivial = distinct genesis hashes of generated configurations + distinct (perturbation class, inconsistency reason) pairs that were rejected + (A, B, height) store pairs decided (refused or accepted); re-evaluations of the same configuration in another order/process are not counted as distinct",
		Run:  runC20,
		Finish: func(tier string, m *xs.Result, ev *xs.Evidence) {
			cnt := m.Counters
			// all workers must agree on the fixed configurations
			names := map[string][]string{}
			for el := range m.Sets["xworker"] {
				i := strings.IndexByte(el, '=')
				names[el[:i]] = append(names[el[:i]], el[i+1:])
			}
			for n, ds := range names {
				if len(ds) != 1 {
					sort.Strings(ds)
					sh := pairShapeA
					if n == pairShapeB.Name() {
						sh = pairShapeB
					}
					m.Violate("C20:genesis-differs-across-processes", fmt.Sprintf("configuration %s: the 16 worker processes computed %d different hash/content/state digests: %v", n, len(ds), ds), Case{Kind: "process", Shape: sh})
				}
			}
			evals := cnt["construct_evals"] + cnt["perm_evals"] + cnt["json_evals"] + cnt["state_evals"] + cnt["full_digest_evals"] + cnt["xworker_evals"] + cnt["pert_evals"] + cnt["pert_file_evals"] + cnt["pair_evals"]
			ev.Coverage["evaluations"] = evals
			dn := len(m.Sets["genesis_hashes"]) + len(m.Sets["rejected_classes"]) + int(cnt["pair_refused"]) + int(cnt["pair_accepted"])
			ev.Coverage["distinct_nontrivial"] = dn
			for _, set := range []string{"consistent_but_rejected_classes", "still_consistent_classes", "refusal_messages"} {
				var l []string
				for el := range m.Sets[set] {
					l = append(l, el)
				}
				sort.Strings(l)
				ev.Coverage[set] = l
			}
			if cnt["replay_mode"] > 0 || m.Incomplete {
				return
			}
			var missing []string
			need := func(name string, min int64) {
				if cnt[name] < min {
					missing = append(missing, fmt.Sprintf("%s=%d<%d", name, cnt[name], min))
				}
			}
			nshapes := int64(len(shapesFor(tier == "thorough")))
			need("configs", nshapes)
			need("configs_accepted", nshapes)
			need("perm_evals", nshapes*10)
			need("pert_evals", nshapes*30)
			need("pert_inconsistent", nshapes*20)
			need("pair_evals", 81)
			for _, l := range listNames {
				if !m.Sets["permuted_lists"][l] {
					missing = append(missing, "list never permuted: "+l)
				}
			}
			// outcome guards: only when nothing was reported except accepted perturbations (which cut nothing short)
			other := 0
			for _, v := range m.Violations {
				if !strings.HasPrefix(v.Key, "C20:inconsistent-config-accepted:") {
					other++
				}
			}
			if other == 0 {
				need("xworker_evals", 32)
				if int64(len(m.Sets["genesis_hashes"])) != nshapes {
					missing = append(missing, fmt.Sprintf("distinct genesis hashes %d != configurations %d", len(m.Sets["genesis_hashes"]), nshapes))
				}
				need("pert_rejected", nshapes*20)
				need("pert_consistent_accepted", 1)
				need("state_ok", nshapes)
				need("pair_refused", 60)
				need("pair_accepted", 10)
				need("pair_ok", 81)
				need("cross_process_comparisons", 64)
			}
			if len(missing) > 0 {
				sort.Strings(missing)
				panic("C20 vacuity guard: " + strings.Join(missing, ", "))
			}
		},
	})
}
