// Hand reproduction of the two C13 findings with nothing but vnode + ops (no code of props/c13).
//
//	go build -tags verif -overlay /verif/.work/overlay.json -o /verif/.work/bin/c13-repro ./cmd/dev-c13/repro && /verif/.work/bin/c13-repro
package main

import (
	"fmt"
	"os"

	"github.com/ethereum/go-ethereum/rlp"

	"github.com/zenon-network/go-zenon/chain/nom"
	"github.com/zenon-network/go-zenon/common/types"

	"verifmc/internal/ops"
	"verifmc/internal/vnode"
)

func wire(b *nom.AccountBlock) []*nom.AccountBlock {
	enc, err := rlp.EncodeToBytes([]*nom.AccountBlock{b})
	if err != nil {
		panic(err)
	}
	var out []*nom.AccountBlock
	if err := rlp.DecodeBytes(enc, &out); err != nil {
		panic(err)
	}
	return out
}

func bal(n *vnode.Node, u int) string {
	z, _ := n.Chain.GetFrontierMomentumStore().GetAccountStore(ops.Users[u].Address).GetBalance(types.ZnnTokenStandard)
	return z.String()
}

func main() {
	dir, _ := os.MkdirTemp("", "c13repro")
	defer os.RemoveAll(dir)
	M := ops.Op{K: "M"}

	fmt.Println("== 1. user block, ChangesHash altered by a relay")
	p := vnode.New(vnode.Options{Dir: dir + "/p"})
	f := vnode.New(vnode.Options{Dir: dir + "/f", NoPillars: true})
	fmt.Println("P: transfer:", ops.Apply(p, ops.Op{K: "T", A: 0, B: 1, V: 500}))
	b := p.PoolBlocks()[0]
	v := vnode.CloneBlock(b)
	v.ChangesHash[0] ^= 1
	fmt.Printf("   original hash %v changesHash %v\n   variant  hash %v changesHash %v (signature untouched)\n", b.Hash, b.ChangesHash, v.Hash, v.ChangesHash)
	err, pan := f.AddAccountBlocks(wire(v))
	fmt.Println("F: AddAccountBlocks(variant):", err, pan, " pooled changesHash:", f.PoolBlocks()[0].ChangesHash)
	fmt.Println("P: momentum:", ops.Apply(p, M))
	idx, err, pan := f.InsertChain(vnode.CloneBatch(p.Range(2, 2)))
	fmt.Println("F: InsertChain(P's momentum 2):", idx, err, pan, " F height:", f.Height())
	idx, err, pan = f.InsertChain(vnode.CloneBatch(p.Range(2, 2)))
	fmt.Println("F: again:", idx, err, pan, " F height:", f.Height())
	p.Destroy()
	f.Destroy()

	fmt.Println("== 2. contract receive, recipient of the descendant (refund) altered by a relay")
	p = vnode.New(vnode.Options{Dir: dir + "/p2"})
	fmt.Println("P: user 6 registers a sentinel without QSR deposit (5000 ZNN, will be refunded):", ops.Apply(p, ops.Op{K: "Call", S: "refund", A: 6}))
	fmt.Println("P: momentum 2 + auto receive:", ops.Apply(p, M))
	var r *nom.AccountBlock
	for _, x := range p.PoolBlocks() {
		if x.BlockType == nom.BlockTypeContractReceive {
			r = x
		}
	}
	fmt.Printf("   contract receive %v: %d descendant, to %v amount %v\n", r.Hash, len(r.DescendantBlocks), r.DescendantBlocks[0].ToAddress, r.DescendantBlocks[0].Amount)
	v = vnode.CloneBlock(r)
	v.DescendantBlocks[0].ToAddress = ops.Users[2].Address // thief = user index 2
	fmt.Printf("   variant: same hash %v, descendant hash field kept %v, descendant recipient %v\n", v.Hash == r.Hash, v.DescendantBlocks[0].Hash == r.DescendantBlocks[0].Hash, v.DescendantBlocks[0].ToAddress)
	// Q: another producing node at the same height that hears the variant first
	q := vnode.New(vnode.Options{Dir: dir + "/q"})
	idx, err, pan = q.InsertChain(vnode.CloneBatch(p.Range(2, 2)))
	fmt.Println("Q: sync momentum 2:", idx, err, pan)
	err, pan = q.AddAccountBlocks(wire(v))
	fmt.Println("Q: AddAccountBlocks(variant):", err, pan)
	err, pan = q.AddAccountBlocks(wire(vnode.CloneBlock(r)))
	fmt.Println("Q: AddAccountBlocks(original, arrives later):", err, pan, "-> pooled descendant recipient:", q.PoolBlocks()[len(q.PoolBlocks())-1].DescendantBlocks[0].ToAddress)
	fmt.Println("Q: produces momentum 3:", ops.Apply(q, M))
	fmt.Println("P: produces momentum 3:", ops.Apply(p, M))
	g := vnode.New(vnode.Options{Dir: dir + "/g", NoPillars: true})
	idx, err, pan = g.InsertChain(vnode.CloneBatch(q.Range(2, 3)))
	fmt.Println("G (fresh node): InsertChain(Q's chain 2..3):", idx, err, pan, " height:", g.Height())
	// a follower of P that already pooled the honest block refuses Q's momentum, and vice versa
	h := vnode.New(vnode.Options{Dir: dir + "/h", NoPillars: true})
	h.InsertChain(vnode.CloneBatch(p.Range(2, 2)))
	h.AddAccountBlocks(wire(vnode.CloneBlock(r)))
	idx, err, pan = h.InsertChain(vnode.CloneBatch(q.Range(3, 3)))
	fmt.Println("H (holds the honest block): InsertChain(Q's momentum 3):", idx, err, pan)
	fmt.Println("   balances before receiving: thief", bal(q, 2), " victim", bal(q, 6))
	fmt.Println("Q: thief receives:", ops.Apply(q, ops.Op{K: "R", A: 2}), " victim receives:", ops.Apply(q, ops.Op{K: "R", A: 6}), " momentum:", ops.Apply(q, M))
	fmt.Println("P: thief receives:", ops.Apply(p, ops.Op{K: "R", A: 2}), " victim receives:", ops.Apply(p, ops.Op{K: "R", A: 6}), " momentum:", ops.Apply(p, M))
	fmt.Println("   on Q's chain: thief", bal(q, 2), " victim", bal(q, 6))
	fmt.Println("   on P's chain: thief", bal(p, 2), " victim", bal(p, 6))
	idx, err, pan = g.InsertChain(vnode.CloneBatch(q.Range(4, 4)))
	fmt.Println("G: InsertChain(Q's momentum 4 with the thief's receive):", idx, err, pan, " thief on G:", bal(g, 2))
}
