// Package c06 — reorganisation leaves no trace of the abandoned branch.
//
// Two producers share a prefix and fork with different content on both sides. Node N adopts branch A, then is handed the
// longer branch B. Enumerated exhaustively: fork depth, branch content variant, every subset of historical views
// requested on N before the switch (ids on the common prefix and on the abandoned branch), the pool contents at switch
// time, the shape of the delivery and the follow-up operation. Oracle: N must be indistinguishable from a fresh node F
// that only ever saw the adopted branch: raw store (ledger + undo/redo), every historical view on the adopted chain, no
// view for abandoned identifiers, pool consistent with F, consensus statistics and election results.
// In addition, at store level: after each rollback of one momentum the raw store equals the raw store before that
// momentum was added (every key).
package c06

import (
	"encoding/json"
	"fmt"
	"math/big"
	"sort"
	"strings"
	"time"

	"github.com/zenon-network/go-zenon/chain/nom"
	"github.com/zenon-network/go-zenon/common/types"

	"verifmc/internal/ops"
	"verifmc/internal/vnode"
	"verifmc/internal/xs"
)

var M = ops.Op{K: "M"}

type spec struct {
	Name   string
	Prefix []ops.Op
	A, B   []ops.Op
}

func rep(o ops.Op, n int) []ops.Op {
	out := make([]ops.Op, n)
	for i := range out {
		out[i] = o
	}
	return out
}

// content variants for the two sides; d = number of momentums on side A, side B gets d+1
func specs(tier string) []spec {
	var out []spec
	prefix := []ops.Op{{K: "T", A: 0, B: 1, V: 500}, M, {K: "Call", S: "fuse", A: 0, B: 1, V: 50}, M, M}
	depths := []int{1, 2, 3}
	if tier == "thorough" {
		depths = []int{1, 2, 3, 4, 6}
	}
	for _, d := range depths {
		// variant 1: transfers + contract call on A, different transfers + refund on B, B starts with a skipped slot
		a := []ops.Op{{K: "T", A: 1, B: 2, V: 7}, {K: "Call", S: "stake", A: 3, V: 10}, M}
		a = append(a, filler(d-1, 0)...)
		b := []ops.Op{{K: "T", A: 4, B: 2, V: 9}, {K: "Call", S: "refund", A: 5}, {K: "M", V: 1}}
		b = append(b, filler(d, 1)...)
		out = append(out, spec{fmt.Sprintf("d%d/transfers-vs-refund", d), prefix, a, b})
		// variant 2: A receives the prefix's send and changes a delegation (election weight); B leaves it pending, touches the same account differently
		a2 := []ops.Op{{K: "R", A: 1}, {K: "Call", S: "delegate", A: 1, B: 2}, M}
		a2 = append(a2, filler(d-1, 1)...)
		b2 := []ops.Op{{K: "T", A: 1, B: 0, T: 1, V: 11}, {K: "M", V: 2}}
		b2 = append(b2, filler(d, 0)...)
		out = append(out, spec{fmt.Sprintf("d%d/receive+delegate-vs-send", d), prefix, a2, b2})
		if tier == "thorough" {
			// variant 3: the fork point is the last momentum of an epoch (prefix of 5 momentums = heights 2..6 with epochs of 6):
			// both branches start the next epoch with different producers, content and missed slots
			pfx3 := []ops.Op{{K: "T", A: 0, B: 1, V: 500}, M, {K: "Call", S: "stake", A: 1, V: 10}, M, M, M, M}
			a3 := append([]ops.Op{{K: "Call", S: "delegate", A: 0, B: 2}, M}, filler(d-1, 0)...)
			b3 := append([]ops.Op{{K: "Call", S: "undelegate", A: 1}, {K: "M", V: 2}}, filler(d, 1)...)
			out = append(out, spec{fmt.Sprintf("d%d/epoch-boundary-fork", d), pfx3, a3, b3})
		}
	}
	// tick-boundary gap: on A the rest of the fork point's election tick is missed (A continues in the next tick, so for
	// this node the tick, and in the first variant the epoch, is finished and ends with the fork point), while B fills
	// the slots A skipped: the statistics of a tick that looked finished change although its last momentum stays on the chain
	for i, pfx := range [][]ops.Op{prefix, append(append([]ops.Op{}, prefix...), M, M, M)} {
		a := []ops.Op{{K: "T", A: 1, B: 2, V: 7}, {K: "Mt"}}
		b := []ops.Op{{K: "T", A: 4, B: 2, V: 9}, M, {K: "T", A: 4, B: 3, V: 9}, M}
		out = append(out, spec{fmt.Sprintf("d1/tick-gap-%s", []string{"epoch-end", "mid-epoch"}[i]), pfx, a, b})
	}
	// the branches disagree on the proof momentum of a later tick's election: A fills the tick after the fork point and
	// starts the next one (4 momentums), B misses the last slot of the tick after the fork point and fills the next tick
	// (5 momentums, none in the tick whose election is at stake); the node answers schedule queries for the coming ticks
	// while it is on A (warm bit 256)
	{
		a := []ops.Op{{K: "T", A: 1, B: 2, V: 7}, M, M, M, M}
		b := []ops.Op{{K: "T", A: 4, B: 2, V: 9}, M, M, {K: "M", V: 1}, M, M}
		out = append(out, spec{"d4/election-proof-differs", prefix, a, b})
	}
	// the abandoned branch holds the first credit an account ever got (an empty account with fused plasma receives; a new
	// token reaches its first holders): keys the rollback has to un-create
	{
		pfx := []ops.Op{{K: "Call", S: "fuse", A: 0, B: 13, V: 50}, {K: "T", A: 0, B: 13, V: 77}, {K: "Call", S: "issue", A: 0, V: 1000}, M, M, M}
		for _, d := range []int{1, 2} {
			a := append([]ops.Op{{K: "R", A: 13}, {K: "R", A: 0}, M}, filler(d-1, 0)...)
			b := append([]ops.Op{{K: "T", A: 4, B: 2, V: 9}, {K: "M", V: 1}}, filler(d, 1)...)
			out = append(out, spec{fmt.Sprintf("d%d/first-credits-abandoned", d), pfx, a, b})
		}
	}
	// long common prefix: views more than 360 momentums behind the frontier live in the store's second view cache
	longPrefix := append(append([]ops.Op{}, prefix...), rep(M, 362)...)
	for _, d := range []int{1, 2} {
		a := append([]ops.Op{{K: "T", A: 1, B: 2, V: 7}, M}, filler(d-1, 0)...)
		b := append([]ops.Op{{K: "Call", S: "delegate", A: 3, B: 2}, {K: "T", A: 4, B: 2, V: 9}, {K: "M", V: 1}}, filler(d, 1)...)
		if tier == "thorough" || d == 1 {
			out = append(out, spec{fmt.Sprintf("l2/d%d/views-360-behind", d), longPrefix, a, b})
		}
	}
	if tier == "thorough" {
		for _, d := range []int{29, 30, 31} {
			a := append([]ops.Op{{K: "T", A: 1, B: 2, V: 7}, M}, rep(M, d-1)...)
			b := append([]ops.Op{{K: "T", A: 4, B: 2, V: 9}, {K: "M", V: 1}}, rep(M, d)...)
			out = append(out, spec{fmt.Sprintf("d%d/long-empty", d), prefix, a, b})
		}
	}
	return out
}

// filler returns n momentums with some content so that deeper forks are not empty
func filler(n int, flavour int) []ops.Op {
	var out []ops.Op
	for i := 0; i < n; i++ {
		if (i+flavour)%2 == 0 {
			out = append(out, ops.Op{K: "T", A: 6 + flavour, B: 5, V: int64(1 + i)}, M)
		} else {
			out = append(out, ops.Op{K: "R", A: 5}, M)
		}
	}
	return out
}

type built struct {
	sp      spec
	prefixH uint64
	a, b    []*nom.DetailedMomentum // index 0 = height 2
	bNext   *nom.DetailedMomentum   // one more momentum on top of B
	cc      []*nom.DetailedMomentum // a third branch from the same fork point, strictly longer than B+1 (index 0 = height 2)
	aIDs    []types.HashHeight      // abandoned identifiers (A side above the prefix)
	g1      *nom.AccountBlock       // gossip valid only on top of A (acknowledges A's tip)
	g2      *nom.AccountBlock       // gossip acknowledging a pre-fork momentum, account untouched on both sides
	refuse  bool                    // fork deeper than the rollback window: B must be refused
}

func build(c *xs.Ctx, sp spec) *built {
	pa := vnode.New(vnode.Options{Dir: c.TempDir()})
	defer pa.Destroy()
	for _, o := range sp.Prefix {
		ops.Apply(pa, o)
	}
	bt := &built{sp: sp, prefixH: pa.Height()}
	pb := vnode.New(vnode.Options{Dir: c.TempDir()})
	defer pb.Destroy()
	if _, err, pan := pb.InsertChain(vnode.CloneBatch(pa.Range(2, bt.prefixH))); err != nil || pan != nil {
		panic(fmt.Sprintf("prefix sync failed: %v %v", err, pan))
	}
	// g2 is generated at the prefix tip, by an account neither side touches (user 10)
	tx, err := pa.Generate(&nom.AccountBlock{BlockType: nom.BlockTypeUserSend, Address: ops.Users[9].Address, ToAddress: ops.Users[8].Address,
		TokenStandard: types.ZnnTokenStandard, Amount: ops.Big(13)})
	if err != nil {
		panic(err)
	}
	bt.g2 = tx.Block
	for _, o := range sp.A {
		ops.Apply(pa, o)
	}
	for _, o := range sp.B {
		ops.Apply(pb, o)
	}
	if pb.Height() <= pa.Height() {
		panic("spec: B must be strictly longer than A")
	}
	if strings.Contains(sp.Name, "tick-gap") {
		tip := pa.Detailed(bt.prefixH).Momentum.Timestamp
		if gap := pa.Detailed(bt.prefixH + 1).Momentum.Timestamp.Sub(*tip); gap < 30*time.Second {
			panic(fmt.Sprintf("spec %s: branch A does not skip the rest of the tick (gap %v)", sp.Name, gap))
		}
		if gap := pb.Detailed(bt.prefixH + 1).Momentum.Timestamp.Sub(*tip); gap != 10*time.Second {
			panic(fmt.Sprintf("spec %s: branch B does not fill the next slot (gap %v)", sp.Name, gap))
		}
	}
	tx, err = pa.Generate(&nom.AccountBlock{BlockType: nom.BlockTypeUserSend, Address: ops.Users[8].Address, ToAddress: ops.Users[7].Address,
		TokenStandard: types.QsrTokenStandard, Amount: ops.Big(17)})
	if err != nil {
		panic(err)
	}
	bt.g1 = tx.Block
	bt.a = pa.Range(2, pa.Height())
	bt.b = pb.Range(2, pb.Height())
	for h := bt.prefixH + 1; h <= pa.Height(); h++ {
		bt.aIDs = append(bt.aIDs, pa.Detailed(h).Momentum.Identifier())
	}
	ops.Apply(pb, ops.Op{K: "T", A: 2, B: 3, V: 1})
	ops.Apply(pb, M)
	bt.bNext = pb.Detailed(pb.Height())
	if pa.Height()-bt.prefixH <= 6 {
		// third branch: forks at the same point, other content again (a burn and a transfer of another account, two
		// skipped slots), two momentums longer than B
		pc := vnode.New(vnode.Options{Dir: c.TempDir()})
		if _, err, pan := pc.InsertChain(vnode.CloneBatch(pa.Range(2, bt.prefixH))); err != nil || pan != nil {
			panic(fmt.Sprintf("prefix sync failed: %v %v", err, pan))
		}
		ops.Apply(pc, ops.Op{K: "Call", S: "burn", A: 7, T: 1, V: 5})
		ops.Apply(pc, ops.Op{K: "M", V: 2})
		for pc.Height() < pb.Height()+1 {
			ops.Apply(pc, ops.Op{K: "T", A: 7, B: 6, V: int64(pc.Height())})
			ops.Apply(pc, M)
		}
		bt.cc = pc.Range(2, pc.Height())
		pc.Destroy()
	}
	bt.refuse = pa.Height()-bt.prefixH > 30
	return bt
}

type caseSpec struct {
	Spec     string `json:"spec"`
	Warm     int    `json:"warm"`     // bit mask over warmable ids
	Pool     int    `json:"pool"`     // bit 0: g1, bit 1: g2
	Delivery int    `json:"delivery"` // 0: from fork point, 1: overlapping (whole chain from height 2), 2: momentum by momentum
	Follow   int    `json:"follow"`   // 0 none, 1 next momentum, 2 gossip g2 afterwards
}

const warmConsensus = 256 // Warm bit: consensus queries for the coming ticks before the switch

type observation struct {
	full, cons, pool string
	listings         string // per account: the balance listing (every token the account store reports, as ledger RPC shows it)
	views            []string
	height           uint64
}

func observe(n *vnode.Node, ids []types.HashHeight) observation {
	o := observation{full: n.FullDigest(), cons: n.ConsensusDigest(6), pool: n.PoolDigest(), height: n.Height(), listings: balanceListings(n)}
	for _, id := range ids {
		o.views = append(o.views, n.ViewDigest(id))
	}
	return o
}

// balanceListings: what the account stores list as balances (iteration over the balance keys, not point reads: entries a
// rollback un-created must not show up), at the confirmed frontier, for every harness account and embedded contract.
func balanceListings(n *vnode.Node) string {
	var addrs []types.Address
	for _, u := range ops.Users {
		addrs = append(addrs, u.Address)
	}
	addrs = append(addrs, types.EmbeddedContracts...)
	var sb strings.Builder
	for _, a := range addrs {
		for vi, st := range []interface {
			GetBalanceMap() (map[types.ZenonTokenStandard]*big.Int, error)
		}{n.Chain.GetFrontierMomentumStore().GetAccountStore(a)} { // confirmed ledger only: what the pools hold is compared separately
			m, err := st.GetBalanceMap()
			var rows []string
			for z, v := range m {
				rows = append(rows, fmt.Sprintf("%v=%v", z, v))
			}
			sort.Strings(rows)
			fmt.Fprintf(&sb, "%v/%d:%v:%s;", a, vi, err, strings.Join(rows, ","))
		}
	}
	return sb.String()
}

func adoptedIDs(bt *built, upto uint64, extra *nom.DetailedMomentum) []types.HashHeight {
	var ids []types.HashHeight
	for _, d := range bt.b {
		if d.Momentum.Height <= upto {
			ids = append(ids, d.Momentum.Identifier())
		}
	}
	if extra != nil {
		ids = append(ids, extra.Momentum.Identifier())
	}
	return ids
}

// reference builds F: a fresh node fed only the chain N is expected to end on.
func reference(c *xs.Ctx, bt *built, follow int) (observation, []types.HashHeight, *vnode.Node) {
	f := vnode.New(vnode.Options{Dir: c.TempDir(), NoPillars: true})
	chain := bt.b
	if bt.refuse {
		chain = bt.a
	}
	if _, err, pan := f.InsertChain(vnode.CloneBatch(chain)); err != nil || pan != nil {
		panic(fmt.Sprintf("reference node refuses the adopted chain: %v %v", err, pan))
	}
	if follow == 3 {
		// second reorganisation: the node ends on the third branch
		f.Destroy()
		f = vnode.New(vnode.Options{Dir: c.TempDir(), NoPillars: true})
		if _, err, pan := f.InsertChain(vnode.CloneBatch(bt.cc)); err != nil || pan != nil {
			panic(fmt.Sprintf("reference node refuses the third branch: %v %v", err, pan))
		}
		var ids []types.HashHeight
		for _, d := range bt.cc {
			ids = append(ids, d.Momentum.Identifier())
		}
		return observe(f, ids), ids, f
	}
	var extra *nom.DetailedMomentum
	if follow == 1 && !bt.refuse {
		if _, err, pan := f.InsertChain(vnode.CloneBatch([]*nom.DetailedMomentum{bt.bNext})); err != nil || pan != nil {
			panic(fmt.Sprintf("reference node refuses the follow-up momentum: %v %v", err, pan))
		}
		extra = bt.bNext
	}
	var ids []types.HashHeight
	if bt.refuse {
		for _, d := range bt.a {
			ids = append(ids, d.Momentum.Identifier())
		}
	} else {
		ids = adoptedIDs(bt, f.Height(), extra)
	}
	return observe(f, ids), ids, f
}

func runCase(c *xs.Ctx, r *xs.Result, bt *built, cs caseSpec, refObs observation, refIDs []types.HashHeight, fnode *vnode.Node) {
	n := vnode.New(vnode.Options{Dir: c.TempDir(), NoPillars: true})
	defer n.Destroy()
	bad := func(sig, format string, a ...interface{}) {
		r.Violate("C06:"+sig, fmt.Sprintf("case %+v: ", cs)+fmt.Sprintf(format, a...), cs)
	}
	if _, err, pan := n.InsertChain(vnode.CloneBatch(bt.a)); err != nil || pan != nil {
		panic(fmt.Sprintf("N refuses branch A: %v %v", err, pan))
	}
	// views requested before the switch: last two prefix ids + abandoned ids (at most 3 of them: first, second, last)
	warmable := []types.HashHeight{bt.a[bt.prefixH-2].Momentum.Identifier(), bt.a[bt.prefixH-3].Momentum.Identifier()}
	if strings.HasPrefix(bt.sp.Name, "l2/") {
		// far behind the frontier instead of just below the fork
		warmable = []types.HashHeight{bt.a[0].Momentum.Identifier(), bt.a[2].Momentum.Identifier()}
	}
	warmable = append(warmable, bt.aIDs[0])
	if len(bt.aIDs) > 1 {
		warmable = append(warmable, bt.aIDs[len(bt.aIDs)-1])
	}
	for i, id := range warmable {
		if cs.Warm&(1<<i) != 0 {
			if n.ViewDigest(id) == "" {
				panic("cannot warm an existing view")
			}
		}
	}
	if cs.Warm&warmConsensus != 0 {
		n.ConsensusDigest(9) // weights, epoch statistics and the producers of the next 9 slots (three election ticks), as RPC and the producer loop ask
	}
	if cs.Pool&1 != 0 {
		if err, pan := n.AddAccountBlocks([]*nom.AccountBlock{vnode.CloneBlock(bt.g1)}); err != nil || pan != nil {
			panic(fmt.Sprintf("g1 refused on branch A: %v %v", err, pan))
		}
	}
	if cs.Pool&2 != 0 {
		if err, pan := n.AddAccountBlocks([]*nom.AccountBlock{vnode.CloneBlock(bt.g2)}); err != nil || pan != nil {
			panic(fmt.Sprintf("g2 refused on branch A: %v %v", err, pan))
		}
	}
	before := n.FullDigest()
	// the switch
	var err error
	var pan interface{}
	switch cs.Delivery {
	case 0:
		_, err, pan = n.InsertChain(vnode.CloneBatch(bt.b[bt.prefixH-1:]))
	case 1:
		_, err, pan = n.InsertChain(vnode.CloneBatch(bt.b))
	case 2:
		// a momentum-by-momentum delivery of a side chain only makes sense once it is longer: deliver the part that makes it
		// longer in one batch, then the rest one by one (here: whole side chain minus nothing, then re-deliver tail singly)
		_, err, pan = n.InsertChain(vnode.CloneBatch(bt.b[bt.prefixH-1:]))
		if err == nil && pan == nil {
			for _, d := range bt.b[bt.prefixH-1:] {
				if _, e2, p2 := n.InsertChain(vnode.CloneBatch([]*nom.DetailedMomentum{d})); e2 != nil || p2 != nil {
					bad("redelivery-after-switch-fails", "re-delivering momentum %d after the switch: %v %v", d.Momentum.Height, e2, p2)
				}
			}
		}
	}
	if pan != nil {
		bad("switch-panics", "InsertChain of the competing branch panicked: %v", pan)
		return
	}
	if bt.refuse {
		if err == nil {
			bad("too-deep-fork-accepted", "a fork %d momentums deep was adopted", len(bt.aIDs))
		} else if n.FullDigest() != before {
			bad("refused-fork-changed-store", "a refused fork changed the store")
		}
		r.Count("refused_too_deep", 1)
	} else if err != nil {
		bad("longer-branch-refused", "the strictly longer valid branch was refused: %v", err)
		return
	}
	if cs.Follow == 1 && !bt.refuse {
		if _, e2, p2 := n.InsertChain(vnode.CloneBatch([]*nom.DetailedMomentum{bt.bNext})); e2 != nil || p2 != nil {
			bad("follow-up-momentum-refused", "the next momentum of the adopted branch is refused after the switch: %v %v", e2, p2)
			return
		}
	}
	if cs.Follow == 3 {
		if _, e3, p3 := n.InsertChain(vnode.CloneBatch(bt.cc[bt.prefixH-1:])); e3 != nil || p3 != nil {
			bad("second-reorganisation-refused", "a third, still longer valid branch from the same fork point is refused after the first switch: %v %v", e3, p3)
			return
		}
	}
	gossipAfter := cs.Follow == 2
	if gossipAfter {
		e1, p1 := n.AddAccountBlocks([]*nom.AccountBlock{vnode.CloneBlock(bt.g2)})
		e2, p2 := fnode.AddAccountBlocks([]*nom.AccountBlock{vnode.CloneBlock(bt.g2)})
		if (e1 == nil) != (e2 == nil) || (p1 == nil) != (p2 == nil) {
			bad("gossip-after-switch-differs", "a block acknowledging a pre-fork momentum: N err=%v panic=%v, fresh node err=%v panic=%v", e1, p1, e2, p2)
		}
	}
	// --- oracle
	got := observe(n, refIDs)
	if got.height != refObs.height {
		bad("height-differs", "N is at height %d, a node that only saw the adopted branch at %d", got.height, refObs.height)
		return
	}
	if got.full != refObs.full {
		bad("store-differs", "raw store (ledger+undo+redo) differs from a node that only saw the adopted branch: %s",
			vnode.DiffKV(n.Raw(nil, true), fnode.Raw(nil, true)))
	}
	for i := range refIDs {
		if got.views[i] != refObs.views[i] {
			bad("historical-view-differs", "view at %v (height %d) differs from the fresh node's", refIDs[i].Hash, refIDs[i].Height)
			break
		}
	}
	if !bt.refuse {
		abandoned := append([]types.HashHeight{}, bt.aIDs...)
		if cs.Follow == 3 {
			for _, d := range bt.b[bt.prefixH-1:] {
				abandoned = append(abandoned, d.Momentum.Identifier())
			}
		}
		for _, id := range abandoned {
			if n.ViewDigest(id) != "" {
				bad("abandoned-view-served", "a view is still served for abandoned momentum %v (height %d)", id.Hash, id.Height)
				break
			}
		}
	}
	if got.listings != refObs.listings {
		bad("balance-listings-differ", "the balance listings of the accounts differ (confirmed ledger):\n N: %s\n F: %s", got.listings, refObs.listings)
	}
	if got.cons != refObs.cons {
		bad("consensus-differs", "consensus answers differ:\n N: %s\n F: %s", got.cons, refObs.cons)
	}
	// pool: every block N still pools must be acceptable to F and lead to the same pool
	for _, b := range n.PoolBlocks() {
		if e, p := fnode.AddAccountBlocks([]*nom.AccountBlock{vnode.CloneBlock(b)}); e != nil || p != nil {
			bad("pool-keeps-block-invalid-on-adopted-branch", "N still pools block %v height %d which a node on the adopted branch refuses: %v %v", b.Address, b.Height, e, p)
		}
	}
	if gossipAfter {
		if n.PoolDigest() != fnode.PoolDigest() {
			bad("pool-differs", "pools differ after gossiping the same block to both nodes")
		}
	}
	r.Add("outcomes", fmt.Sprintf("h%d pool%d", got.height, len(n.PoolBlocks())))
}

// popRestoresExactly: add the A branch momentum by momentum recording the raw store, then roll back momentum by
// momentum and compare after each pop.
func popRestoresExactly(c *xs.Ctx, r *xs.Result, bt *built) {
	n := vnode.New(vnode.Options{Dir: c.TempDir(), NoPillars: true})
	defer n.Destroy()
	digests := map[uint64]string{}
	dumps := map[uint64][]vnode.KV{}
	for _, d := range bt.a {
		if _, err, pan := n.InsertChain(vnode.CloneBatch([]*nom.DetailedMomentum{d})); err != nil || pan != nil {
			panic(fmt.Sprintf("%v %v", err, pan))
		}
		digests[n.Height()] = n.FullDigest()
		dumps[n.Height()] = n.Raw(nil, true)
	}
	target := bt.a[bt.prefixH-2].Momentum.Identifier()
	if n.Height()-target.Height > 30 {
		return
	}
	l := &popListener{f: func() {
		h := n.Height()
		r.Count("pops_compared", 1)
		if got := n.FullDigest(); got != digests[h] {
			r.Violate("C06:pop-does-not-restore", fmt.Sprintf("spec %s: after rolling back momentum %d the raw store differs from the store before it was added: %s",
				bt.sp.Name, h+1, vnode.DiffKV(n.Raw(nil, true), dumps[h])), map[string]string{"spec": bt.sp.Name, "mode": "pop"})
		}
	}}
	n.Chain.Register(l)
	ins := n.Chain.AcquireInsert("c06 rollback")
	err := n.Chain.RollbackTo(ins, target)
	ins.Unlock()
	n.Chain.UnRegister(l)
	if err != nil {
		r.Violate("C06:rollback-fails", fmt.Sprintf("spec %s: RollbackTo failed: %v", bt.sp.Name, err), map[string]string{"spec": bt.sp.Name, "mode": "pop"})
	}
}

type popListener struct{ f func() }

func (l *popListener) InsertMomentum(*nom.DetailedMomentum) {}
func (l *popListener) DeleteMomentum(*nom.DetailedMomentum) { l.f() }

func init() {
	xs.Register(&xs.Check{
		ID:     "C06",
		Level:  "model_checking",
		Shards: func(tier string) int { return 16 },
		Budget: func(tier string) time.Duration {
			if tier == "thorough" {
				return 20 * time.Minute
			}
			return 3 * time.Minute
		},
		Assumptions: []string{
			"mock genesis; election tick shrunk to 3 slots and epoch to 2 ticks (constants.ConsensusConfig, consensus.EpochDuration) so that tick/epoch boundaries fall inside the explored chains",
			"the competing branch is delivered through protocol.ChainBridge.InsertChain",
			"pool oracle: every block the node still pools after the switch must be acceptable to a node that only saw the adopted branch (the statement cannot demand more: the reference node's pool depends on which gossip it saw)",
		},
		Run: run,
		Finish: func(tier string, m *xs.Result, ev *xs.Evidence) {
			ev.Coverage["states"] = m.Counters["cases"]
			ev.Coverage["transitions"] = m.Counters["cases"]*3 + m.Counters["pops_compared"]
			ev.Coverage["traces_validated_against_impl"] = m.Counters["cases"]
		},
	})
}

func run(c *xs.Ctx, r *xs.Result) {
	vnode.SmallConsensus(2)
	var only *caseSpec
	if c.Replay != nil {
		var cs caseSpec
		if err := json.Unmarshal(c.Replay, &cs); err == nil && cs.Spec != "" {
			only = &cs
		}
	}
	if c.Replay != nil {
		var sc StoreCase
		if err := json.Unmarshal(c.Replay, &sc); err == nil && sc.Mode == "store" {
			storeLevel(c, r, &sc)
			return
		}
	}
	if only == nil && (c.NShards <= 1 || c.Shard == c.NShards-1) {
		storeLevel(c, r, nil)
	}
	idx := 0
	for _, sp := range specs("thorough") {
		inTier := false
		for _, s2 := range specs(c.Tier) {
			if s2.Name == sp.Name {
				inTier = true
			}
		}
		if !inTier || (only != nil && only.Spec != sp.Name) {
			continue
		}
		var bt *built
		get := func() *built {
			if bt == nil {
				bt = build(c, sp)
			}
			return bt
		}
		if only == nil && c.Mine(idx) {
			popRestoresExactly(c, r, get())
		}
		idx++
		nwarm := 4
		if len(sp.A) > 0 && get().aIDs != nil && len(get().aIDs) == 1 {
			nwarm = 3
		}
		long := len(get().aIDs) > 3 || strings.HasPrefix(sp.Name, "l2/")
		nfollow := 3
		if c.Thorough() && get().cc != nil && !get().refuse {
			nfollow = 4
		}
		for follow := 0; follow < nfollow; follow++ {
			var refObs observation
			var refIDs []types.HashHeight
			warms := []int{}
			for warm := 0; warm < 1<<nwarm; warm++ {
				if long && warm != 0 && warm != (1<<nwarm)-1 {
					continue // long forks: none / all
				}
				warms = append(warms, warm)
			}
			if strings.Contains(sp.Name, "election-proof") || strings.Contains(sp.Name, "tick-gap") {
				for _, warm := range append([]int{}, warms...) {
					warms = append(warms, warm|warmConsensus)
				}
			}
			for _, warm := range warms {
				for pool := 0; pool < 4; pool++ {
					for delivery := 0; delivery < 3; delivery++ {
						if long && (delivery == 2 || (pool != 0 && pool != 3)) {
							continue
						}
						cs := caseSpec{sp.Name, warm, pool, delivery, follow}
						idx++
						if only != nil {
							if *only != cs {
								continue
							}
						} else if !c.Mine(idx) {
							continue
						}
						if c.Expired() {
							r.Incomplete = true
							return
						}
						// the reference node is consumed by gossip in follow==2, so rebuild it per case there
						var f *vnode.Node
						refObs, refIDs, f = reference(c, get(), follow)
						runCase(c, r, get(), cs, refObs, refIDs, f)
						f.Destroy()
						r.Count("cases", 1)
						r.Sample(cs)
					}
				}
			}
		}
	}
}
