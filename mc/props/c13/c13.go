// Package c13 — a block's hash pins down its stored bytes and its effect.
//
// Part A (codec.go): every account block and momentum of a family of real histories plus generated boundary shapes
// goes through protobuf, RLP (the Go types protocol/peer.go puts on the wire) and JSON (nom types and rpc/api types):
// decode(encode(x)) must re-serialise to the same protobuf bytes with the same hash; the RLP-round-tripped detailed
// momentums must be accepted by a follower that ends byte-identical to the producer.
// Part B (explore.go, variants.go): for every block at the moment it enters the producer's pool, every alteration of
// every field (outside and inside the hash pre-image, of the block and of its descendants, plus non-canonical ABI
// encodings of call data) is delivered to a follower through AddAccountBlocks while the producer keeps the original;
// the producer's momentums then go to the follower through InsertChain.
// Part C (momentum.go): two momentums with one hash, and one momentum carrying altered account blocks, delivered to
// different followers.
package c13

import (
	"encoding/json"
	"fmt"
	"os"
	"sort"
	"time"

	"verifmc/internal/ops"
	"verifmc/internal/xs"
)

func init() {
	xs.Register(&xs.Check{
		ID:    "C13",
		Level: "model_checking",
		Shards: func(tier string) int {
			if tier == "thorough" {
				return 48
			}
			return 16
		},
		Budget: func(tier string) time.Duration {
			if tier == "thorough" {
				return 14 * time.Minute
			}
			return 85 * time.Second
		},
		Assumptions: []string{
			"mock genesis (3 pillars, chain id 100, funded accounts User1..5 and Pillar1..8 with fused plasma); no process global is changed apart from the logical clock installed by vnode",
			"delivery seams are protocol.ChainBridge.AddAccountBlocks / InsertChain (what the TxMsg / NewBlockMsg / BlocksMsg handlers call through fetcher and downloader); every delivered object first passes through rlp.EncodeToBytes / rlp.DecodeBytes of the Go types protocol/peer.go sends",
			"bounded space: the stated histories; per block the alterations listed in variants.go (quick: bit flips at a fixed set of positions; thorough: every single-bit flip of ChangesHash, PublicKey and Signature); one altered field (or one named pair) per variant",
			"a variant signed again by the account's own key (flavour resign) is a different block of the key holder, not a second form of the same block; it is only used for the call-data question",
		},
		Rule: "decode(encode(x)) re-serialises to the same protobuf bytes with an unchanged hash for protobuf, RLP and JSON (nom and rpc/api forms)",
		Run:  run,
		Finish: func(tier string, m *xs.Result, ev *xs.Evidence) {
			ev.Coverage["states"] = m.Counters["states"]
			ev.Coverage["transitions"] = m.Counters["transitions"]
			ev.Coverage["traces_validated_against_impl"] = m.Counters["transitions"]
			ev.Coverage["evaluations"] = m.Counters["codec_evaluations"]
			ev.Coverage["distinct_nontrivial"] = len(m.Sets["codec_shapes"])
			ev.Coverage["explanation"] = "states = (block or momentum, variant) pairs; transitions = executions of the real AddAccountBlocks / InsertChain on real nodes; evaluations = codec round trips of part A, distinct_nontrivial = distinct (kind, field-shape) classes among the encoded objects"
			for _, set := range []string{"outcomes", "refusal_reasons", "momentum_outcomes", "escalations", "call_data", "vm_panic_variants", "json_forms", "codecs"} {
				var l []string
				for e := range m.Sets[set] {
					l = append(l, e)
				}
				sort.Strings(l)
				ev.Coverage["table_"+set] = l
			}
			if m.Counters["replay_mode"] > 0 {
				return
			}
			// observations that are not violations of the statement
			if n := len(m.Sets["vm_panic_variants"]); n > 0 {
				ev.Notes = append(ev.Notes, fmt.Sprintf("%d (class, field) alterations made the VM panic inside Supervisor.applyBlock on the receiving node (recovered there and turned into a refusal, store unchanged): see table_vm_panic_variants", n))
			}
			ev.Notes = append(ev.Notes, fmt.Sprintf("call data: %d non-canonical encodings of the same arguments (out of %d distinct method/form pairs tried, malformed ones included) were delivered; re-encoded by a relay with hash and signature kept they are accepted and stored as the canonical bytes (ValidateSendBlock repacks before the hash is checked); hashed and signed over the non-canonical bytes by the key holder they are refused (hash mismatch after repacking): see table_call_data", m.Counters["call_data_same_args_variants"], len(m.Sets["call_data_forms"])))
			ev.Notes = append(ev.Notes, fmt.Sprintf("JSON forms: %d alternative number/string spellings tried on the nom JSON form: %d refused, %d decode to the same block, %d decode to another block whose hash no longer matches (malformed amounts such as \" 5\" or \"0x5\" are silently read as 0 by common.StringToBigInt; for a descendant block this goes unnoticed for the reason reported under the contract-receive key)",
				m.Counters["json_forms_tried"], m.Counters["json_forms_refused"], m.Counters["json_forms_same_block"], m.Counters["json_forms_other_block_hash_mismatch"]))
			if m.Incomplete {
				return
			}
			// vacuity guards
			need := map[string]int64{"variants_refused": 1, "variants_accepted_normalised": 1, "honest_followers_identical": 1, "codec_evaluations": 1,
				"momentum_variants_refused": 1, "codec_follower_checks": 1, "call_data_same_args_variants": 1, "blocks_with_descendants": 1,
				"other_blocks_accepted": 1, "honest_momentum_followers_identical": 1}
			for k, min := range need {
				if m.Counters[k] < min {
					panic(fmt.Sprintf("vacuity guard: counter %s = %d", k, m.Counters[k]))
				}
			}
			if len(m.Sets["block_classes"]) < 5 {
				panic(fmt.Sprintf("vacuity guard: only %d block classes explored", len(m.Sets["block_classes"])))
			}
			if len(m.Sets["codec_shapes"]) < 2 {
				panic("vacuity guard: fewer than 2 distinct codec shapes")
			}
		},
	})
}

type workItem struct {
	part  string
	hist  int
	block int
}

func run(c *xs.Ctx, r *xs.Result) {
	hs := allHistories()
	recs := map[int]*prodRec{}
	getRec := func(hi int) *prodRec {
		if recs[hi] == nil {
			recs[hi] = produce(c, hs[hi])
		}
		return recs[hi]
	}
	if c.Replay != nil {
		r.Count("replay_mode", 1)
		var rep replayB
		if err := json.Unmarshal(c.Replay, &rep); err != nil {
			panic(err)
		}
		switch rep.Part {
		case "B":
			rec := getRec(rep.Hist)
			exploreBlock(c, r, rep.Hist, rec, rec.Pooled[rep.Block], rep.Variant)
		case "C":
			exploreMomentum(c, r, rep.Hist, getRec(rep.Hist), rep.Height, rep.Variant)
		case "A":
			codecPart(c, r, -1)
		}
		return
	}
	if os.Getenv("C13_PROBE") == "1" && c.Shard == 0 {
		for hi := range hs {
			rec := getRec(hi)
			r.Note("history %d: %v", hi, rec.Outcome)
			for _, k := range rec.Pooled {
				r.Note("  block %d %s op=%d hp=%d hc=%d desc=%d earlier=%v", k.Idx, blockClass(k.Block), k.Op, k.HP, k.HC, len(k.Block.DescendantBlocks), k.Earlier)
			}
		}
	}
	// work list: the histories are tiny; their lengths are needed to shard, so every worker produces the variant
	// histories once (≈0.2 s each)
	var items []workItem
	nVar := 3 // quick: H3 (many headers) is used by the codec part and the momentum part only
	if c.Thorough() {
		nVar = nScripted
	}
	for hi := 0; hi < nVar; hi++ {
		rec := getRec(hi)
		for _, k := range rec.Pooled {
			items = append(items, workItem{"B", hi, k.Idx})
		}
	}
	if c.Thorough() {
		// enumerated family: one work item per history (only the worker that owns it produces it)
		for hi := nScripted; hi < len(hs); hi++ {
			items = append(items, workItem{"BH", hi, 0})
		}
	}
	for hi := 0; hi < nScripted; hi++ {
		for h := uint64(2); h <= getRec(hi).H; h++ {
			items = append(items, workItem{"C", hi, int(h)})
		}
	}
	for sub := 0; sub < codecSubs; sub++ {
		items = append(items, workItem{"A", 0, sub})
	}
	for i, it := range items {
		if !c.Mine(i) {
			continue
		}
		if c.Expired() {
			r.Incomplete = true
			r.Note("deadline reached before work item %d/%d", i, len(items))
			break
		}
		switch it.part {
		case "B":
			rec := getRec(it.hist)
			k := rec.Pooled[it.block]
			if k.HC == 0 {
				panic(fmt.Sprintf("history %d [%s]: block %d is never confirmed", it.hist, ops.Hist(rec.Hist), k.Idx))
			}
			exploreBlock(c, r, it.hist, rec, k, "")
			r.Count("blocks_explored", 1)
			r.Add("block_classes", blockClass(k.Block))
			if len(k.Block.DescendantBlocks) > 0 {
				r.Count("blocks_with_descendants", 1)
			}
		case "BH":
			rec := getRec(it.hist)
			for _, k := range rec.Pooled {
				if k.HC == 0 {
					panic(fmt.Sprintf("history %d [%s]: block %d is never confirmed", it.hist, ops.Hist(rec.Hist), k.Idx))
				}
				exploreBlock(c, r, it.hist, rec, k, "")
				r.Count("blocks_explored", 1)
				r.Add("block_classes", blockClass(k.Block))
				if len(k.Block.DescendantBlocks) > 0 {
					r.Count("blocks_with_descendants", 1)
				}
			}
			r.Count("enumerated_histories", 1)
			r.Add("enumerated_outcomes", fmt.Sprint(rec.Outcome))
			delete(recs, it.hist)
		case "C":
			exploreMomentum(c, r, it.hist, getRec(it.hist), uint64(it.block), "")
		case "A":
			codecPart(c, r, it.block)
		}
	}
}
