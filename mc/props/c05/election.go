package c05

import (
	"bytes"
	"encoding/binary"
	"fmt"
	"math/big"
	"math/rand"
	"sort"
	"time"

	"golang.org/x/crypto/sha3"

	"github.com/zenon-network/go-zenon/chain/nom"
	"github.com/zenon-network/go-zenon/common/types"
	"github.com/zenon-network/go-zenon/vm/embedded/definition"

	"verifmc/internal/vnode"
)

// ---------------------------------------------------------------------------------------------------------------------
// Reference election, written from the statement and from reading consensus/election.go + election_algorithm.go. It works
// on snapshots of the pillar registry, the delegation table and the backers' ZNN balances that the harness takes at the
// frontier of the producing node after every momentum (never through historical views or the consensus module).

const slotSeconds = 10

type pillarSnap struct {
	Name      string
	Producing types.Address
	Active    bool
}

type snap struct {
	Height  uint64
	Pillars []pillarSnap
	Deleg   map[types.Address]string   // backer -> pillar name
	Bal     map[types.Address]*big.Int // ZNN balance of every backer
}

func takeSnap(n *vnode.Node) *snap {
	st := n.Chain.GetFrontierMomentumStore()
	storage := st.GetAccountStore(types.PillarContract).Storage()
	s := &snap{Height: n.Height(), Deleg: map[types.Address]string{}, Bal: map[types.Address]*big.Int{}}
	pl, err := definition.GetPillarsList(storage, false, definition.AnyPillarType)
	must(err)
	for _, p := range pl {
		s.Pillars = append(s.Pillars, pillarSnap{p.Name, p.BlockProducingAddress, p.RevokeTime == 0})
	}
	dl, err := definition.GetDelegationsList(storage)
	must(err)
	for _, d := range dl {
		s.Deleg[d.Backer] = d.Name
		bal, err := st.GetAccountStore(d.Backer).GetBalance(types.ZnnTokenStandard)
		must(err)
		s.Bal[d.Backer] = bal
	}
	return s
}

type weighted struct {
	pillarSnap
	Weight *big.Int
}

// weights: per active pillar the sum of the ZNN balances of its backers, ordered by (weight desc, name asc).
func (s *snap) weights() []weighted {
	var out []weighted
	for _, p := range s.Pillars {
		if !p.Active {
			continue
		}
		w := new(big.Int)
		for backer, name := range s.Deleg {
			if name == p.Name {
				w.Add(w, s.Bal[backer])
			}
		}
		out = append(out, weighted{p, w})
	}
	sortWeighted(out)
	return out
}

func sortWeighted(l []weighted) {
	sort.SliceStable(l, func(i, j int) bool {
		if c := l[i].Weight.Cmp(l[j].Weight); c != 0 {
			return c > 0
		}
		return l[i].Name < l[j].Name
	})
}

func (s *snap) weightString() string {
	var sb bytes.Buffer
	for _, w := range s.weights() {
		fmt.Fprintf(&sb, "%s=%v,", w.Name, w.Weight)
	}
	return sb.String()
}

// elect returns the ordered producers of a tick whose proof momentum has the given height and registry snapshot.
func elect(s *snap, proofHeight uint64, nodeCount, randCount int) ([]types.Address, error) {
	all := s.weights()
	if len(all) == 0 {
		return nil, fmt.Errorf("no active pillar")
	}
	seed := int64(proofHeight)
	groupA, groupB := all, []weighted(nil)
	if len(all) > nodeCount {
		groupA, groupB = all[:nodeCount], all[nodeCount:]
	}
	var result []weighted
	if len(groupA) != nodeCount {
		// fewer pillars than slots: the seeded permutation of all pillars is repeated until the tick is full
		for len(result) < nodeCount {
			for _, i := range rand.New(rand.NewSource(seed)).Perm(len(groupA)) {
				result = append(result, groupA[i])
			}
		}
		result = result[:nodeCount]
	} else {
		top := nodeCount - randCount
		idx := rand.New(rand.NewSource(seed)).Perm(len(groupA))
		for i := 0; i < top; i++ {
			result = append(result, groupA[idx[i]])
		}
		second := append([]weighted{}, groupB...)
		for i := top; i < nodeCount; i++ {
			second = append(second, groupA[idx[i]])
		}
		for _, i := range rand.New(rand.NewSource(seed + 1)).Perm(len(second))[:randCount] {
			result = append(result, second[i])
		}
	}
	out := make([]types.Address, 0, len(result))
	for _, i := range rand.New(rand.NewSource(seed)).Perm(len(result)) {
		out = append(out, result[i].Producing)
	}
	return out, nil
}

// ---------------------------------------------------------------------------------------------------------------------
// chain view used by the reference: the momentums (height, hash, timestamp) the harness holds, plus the snapshots

type refChain struct {
	genesis   time.Time
	nodeCount int
	randCount int
	moms      []*nom.Momentum // index 0 = genesis
	snaps     map[types.Hash]*snap
}

func (rc *refChain) tickDur() time.Duration {
	return time.Duration(rc.nodeCount*slotSeconds) * time.Second
}

func (rc *refChain) slotTime(tick uint64, slot int) time.Time {
	return rc.genesis.Add(rc.tickDur()*time.Duration(tick) + time.Duration(slot*slotSeconds)*time.Second)
}

func (rc *refChain) tickOf(t time.Time) uint64 {
	return uint64(t.Unix()-rc.genesis.Unix()) / uint64(rc.nodeCount*slotSeconds)
}

// proof is the last momentum strictly before the proof time of the tick: one second after genesis for ticks 0 and 1,
// the end of tick-2 otherwise.
func (rc *refChain) proof(tick uint64) *nom.Momentum {
	pt := rc.genesis.Add(time.Second)
	if tick >= 2 {
		pt = rc.genesis.Add(rc.tickDur() * time.Duration(tick-1))
	}
	var best *nom.Momentum
	for _, m := range rc.moms {
		if int64(m.TimestampUnix) < pt.Unix() {
			best = m
		}
	}
	return best
}

func (rc *refChain) schedule(tick uint64) ([]types.Address, *snap, error) {
	p := rc.proof(tick)
	if p == nil {
		return nil, nil, fmt.Errorf("no proof momentum")
	}
	s := rc.snaps[p.Hash]
	if s == nil {
		panic(fmt.Sprintf("reference: no snapshot for proof momentum %d", p.Height))
	}
	l, err := elect(s, p.Height, rc.nodeCount, rc.randCount)
	return l, s, err
}

// electedFor is the pillar elected for the slot containing t (nil if t is before genesis or nothing can be elected).
func (rc *refChain) electedFor(t time.Time) *types.Address {
	if t.Unix() < rc.genesis.Unix() {
		return nil
	}
	tick := rc.tickOf(t)
	l, _, err := rc.schedule(tick)
	if err != nil {
		return nil
	}
	off := uint64(t.Unix()-rc.genesis.Unix()) % uint64(rc.nodeCount*slotSeconds)
	return &l[off/slotSeconds]
}

// ---------------------------------------------------------------------------------------------------------------------
// own encodings for the momentum hash

func h256(data []byte) (out types.Hash) {
	s := sha3.Sum256(data)
	copy(out[:], s[:])
	return
}

func u64(v uint64) []byte {
	var b [8]byte
	binary.BigEndian.PutUint64(b[:], v)
	return b[:]
}

func ownMomentumHash(m *nom.Momentum) types.Hash {
	var content bytes.Buffer
	for _, h := range m.Content {
		content.Write(h.Address[:])
		content.Write(u64(h.Height))
		content.Write(h.Hash[:])
	}
	var buf bytes.Buffer
	buf.Write(u64(m.Version))
	buf.Write(u64(m.ChainIdentifier))
	buf.Write(m.PreviousHash[:])
	buf.Write(u64(m.Height))
	buf.Write(u64(m.TimestampUnix))
	dh := h256(m.Data)
	buf.Write(dh[:])
	ch := h256(content.Bytes())
	buf.Write(ch[:])
	buf.Write(m.ChangesHash[:])
	return h256(buf.Bytes())
}

func ownAddress(pub []byte) (a types.Address) {
	s := sha3.Sum256(pub)
	a[0] = 0
	copy(a[1:], s[:19])
	return
}

func must(err error) {
	if err != nil {
		panic(err)
	}
}
