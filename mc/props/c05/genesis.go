package c05

import (
	"fmt"
	"math/big"

	"github.com/zenon-network/go-zenon/chain/genesis"
	g "github.com/zenon-network/go-zenon/chain/genesis/mock"
	"github.com/zenon-network/go-zenon/common/types"
	"github.com/zenon-network/go-zenon/vm/constants"
	"github.com/zenon-network/go-zenon/vm/embedded/definition"
)

var pillarNames = []string{g.Pillar1Name, g.Pillar2Name, g.Pillar3Name, g.Pillar4Name, g.Pillar5Name, g.Pillar6Name, g.Pillar7Name, g.Pillar8Name}

type genesisVariant struct {
	Name    string
	Pillars int
	cfg     *genesis.GenesisConfig // nil = the mock genesis itself
}

var variantCache = map[string]*genesisVariant{}

// variant builds a genesis configuration derived from the mock genesis with k registered pillars (producing keys
// Pillar1..k of the mock) and either the mock's user delegations ("distinct") or self-delegations only ("equal": pillars
// 1..3 weigh 1000 ZNN each, pillars 4..8 16000 ZNN each, so several pillars tie and the name decides).
func variant(k int, equal bool) *genesisVariant {
	name := fmt.Sprintf("%d-pillars/%s-weights", k, map[bool]string{true: "tied", false: "distinct"}[equal])
	if v, ok := variantCache[name]; ok {
		return v
	}
	v := &genesisVariant{Name: name, Pillars: k}
	variantCache[name] = v
	if k == 3 && !equal {
		return v // the mock genesis: 21000 / 2000 / 2000 (pillars 2 and 3 tie)
	}
	base := g.EmbeddedGenesis
	cfg := *base
	pc := &genesis.PillarContractConfig{LegacyEntries: base.PillarConfig.LegacyEntries}
	for i := 0; i < k; i++ {
		kp := g.PillarKeys[i]
		pc.Pillars = append(pc.Pillars, &definition.PillarInfo{
			Name: pillarNames[i], BlockProducingAddress: kp.Address, StakeAddress: kp.Address, RewardWithdrawAddress: kp.Address,
			Amount: new(big.Int).Set(constants.PillarStakeAmount), RegistrationTime: base.GenesisTimestampSec, RevokeTime: 0,
			GiveBlockRewardPercentage: 0, GiveDelegateRewardPercentage: 100, PillarType: definition.LegacyPillarType,
		})
		pc.Delegations = append(pc.Delegations, &definition.DelegationInfo{Name: pillarNames[i], Backer: kp.Address})
	}
	if !equal {
		users := []types.Address{g.User1.Address, g.User2.Address, g.User3.Address, g.User4.Address, g.User5.Address}
		for i, u := range users {
			pc.Delegations = append(pc.Delegations, &definition.DelegationInfo{Name: pillarNames[(i*2)%k], Backer: u})
		}
	}
	cfg.PillarConfig = pc
	// keep the configuration consistent: the pillar contract holds the stakes, the ZNN supply covers them
	delta := new(big.Int).Mul(constants.PillarStakeAmount, big.NewInt(int64(k-3)))
	blocks := &genesis.GenesisBlocksConfig{}
	for _, b := range base.GenesisBlocks.Blocks {
		nb := &genesis.GenesisBlockConfig{Address: b.Address, BalanceList: map[types.ZenonTokenStandard]*big.Int{}}
		for z, a := range b.BalanceList {
			nb.BalanceList[z] = new(big.Int).Set(a)
		}
		if b.Address == types.PillarContract {
			nb.BalanceList[types.ZnnTokenStandard].Add(nb.BalanceList[types.ZnnTokenStandard], delta)
		}
		blocks.Blocks = append(blocks.Blocks, nb)
	}
	cfg.GenesisBlocks = blocks
	tc := &genesis.TokenContractConfig{}
	for _, t := range base.TokenConfig.Tokens {
		nt := *t
		nt.TotalSupply = new(big.Int).Set(t.TotalSupply)
		if t.TokenStandard == types.ZnnTokenStandard {
			nt.TotalSupply.Add(nt.TotalSupply, delta)
		}
		tc.Tokens = append(tc.Tokens, &nt)
	}
	cfg.TokenConfig = tc
	if err := genesis.CheckGenesis(&cfg); err != nil {
		panic(fmt.Sprintf("generated genesis %s is inconsistent: %v", name, err))
	}
	v.cfg = &cfg
	return v
}
