// Package vnode assembles real go-zenon nodes (chain + consensus + supervisor + verifier + pillars + chain bridge) inside
// the checker process, the way zenon.NewZenon does, minus the p2p server. Several nodes can coexist in one process.
// It keeps a handle on the db.Manager so that the raw key space can be dumped and compared.
package vnode

import (
	"bytes"
	"crypto/sha256"
	"encoding/hex"
	"fmt"
	"github.com/zenon-network/go-zenon/vm/vm_context"
	"math/big"
	"os"
	"path/filepath"
	"sort"
	"sync"
	"time"

	"github.com/inconshreveable/log15"
	"github.com/syndtr/goleveldb/leveldb"

	"github.com/zenon-network/go-zenon/chain"
	"github.com/zenon-network/go-zenon/chain/genesis"
	g "github.com/zenon-network/go-zenon/chain/genesis/mock"
	"github.com/zenon-network/go-zenon/chain/nom"
	"github.com/zenon-network/go-zenon/chain/store"
	"github.com/zenon-network/go-zenon/common"
	"github.com/zenon-network/go-zenon/common/db"
	"github.com/zenon-network/go-zenon/common/types"
	"github.com/zenon-network/go-zenon/consensus"
	"github.com/zenon-network/go-zenon/pillar"
	"github.com/zenon-network/go-zenon/protocol"
	"github.com/zenon-network/go-zenon/verifier"
	"github.com/zenon-network/go-zenon/vm"
	"github.com/zenon-network/go-zenon/vm/constants"
	"github.com/zenon-network/go-zenon/wallet"
)

// ---------------------------------------------------------------------------------------------------------------------
// process-global environment owned by the harness

// LogicalClock replaces common.Clock. The harness sets it explicitly before each producer step.
type LogicalClock struct {
	mu sync.Mutex
	t  time.Time
}

func (c *LogicalClock) Now() time.Time {
	c.mu.Lock()
	defer c.mu.Unlock()
	return c.t
}
func (c *LogicalClock) Set(t time.Time) {
	c.mu.Lock()
	c.t = t
	c.mu.Unlock()
}

var Clock = &LogicalClock{t: time.Unix(1000000000, 0)}

var quietOnce sync.Once

// Quiet silences all repository loggers and installs the logical clock.
func Quiet() {
	quietOnce.Do(func() {
		for _, l := range []common.Logger{
			common.ZenonLogger, common.ChainLogger, common.SupervisorLogger, common.P2PLogger, common.PillarLogger,
			common.RPCLogger, common.WalletLogger, common.EmbeddedLogger, common.VmLogger, common.ProtocolLogger,
			common.FetcherLogger, common.DownloaderLogger, common.ConsensusLogger, common.VerifierLogger,
		} {
			l.SetHandler(log15.DiscardHandler())
		}
		log15.Root().SetHandler(log15.DiscardHandler())
		common.Clock = Clock
		// live-network regime: the chain is past the height from which a receive must be made by the account the send
		// was addressed to (on test chains the default constant would leave the legacy regime on forever)
		verifier.ReceiverMismatchEnforcementHeight = 0
		// silence fmt.Printf noise from chain.Init ("Initialized NoM ...") by redirecting stdout of the repo is not
		// possible per call; workers therefore write their results on a dedicated fd (see xs package).
	})
}

// ---------------------------------------------------------------------------------------------------------------------

type Created struct {
	Momentum *nom.DetailedMomentum // set for a momentum
	Block    *nom.AccountBlock     // set for an account block
}

// recorder implements protocol.Broadcaster for the pillars of one node: inserts into the node's own chain exactly like
// protocol.broadcaster does and records what was created so that the harness can deliver it elsewhere.
type recorder struct {
	n *Node
}

func (r *recorder) SyncInfo() *protocol.SyncInfo {
	return &protocol.SyncInfo{State: protocol.SyncDone}
}
func (r *recorder) CreateMomentum(mt *nom.MomentumTransaction) {
	n := r.n
	if n.BeforeOwnMomentumInsert != nil {
		n.BeforeOwnMomentumInsert(mt)
	}
	insert := n.Chain.AcquireInsert("vnode create momentum")
	err := n.Chain.AddMomentumTransaction(insert, mt)
	insert.Unlock()
	if err != nil {
		n.LastProduceErr = err
		return
	}
	st := n.Chain.GetFrontierMomentumStore()
	detailed, err := st.PrefetchMomentum(mt.Momentum)
	if err != nil {
		n.LastProduceErr = err
		return
	}
	n.Created = append(n.Created, Created{Momentum: detailed})
}
func (r *recorder) CreateAccountBlock(t *nom.AccountBlockTransaction) {
	n := r.n
	insert := n.Chain.AcquireInsert("vnode create account-block")
	err := n.Chain.AddAccountBlockTransaction(insert, t)
	insert.Unlock()
	if err != nil {
		n.LastProduceErr = err
		return
	}
	n.Created = append(n.Created, Created{Block: t.Block})
}

type Options struct {
	Dir          string // node directory; "nom" and "consensus" are created below it
	Genesis      *genesis.GenesisConfig
	PillarKeys   []*wallet.KeyPair
	MemConsensus bool // consensus cache in memory (as the repository's mock) instead of a leveldb that survives restarts
	NoPillars    bool
}

type Node struct {
	Opts    Options
	Mgr     db.Manager
	Chain   chain.Chain
	Cons    consensus.Consensus
	consLDB *leveldb.DB
	Sup     *vm.Supervisor
	Ver     verifier.Verifier
	Bridge  protocol.ChainBridge
	Pillars []pillar.Manager

	Created        []Created
	LastProduceErr error

	// BeforeOwnMomentumInsert, when set, runs after a pillar generated its momentum and released the insert lock and
	// before it re-acquires it to insert (the window the repository leaves open).
	BeforeOwnMomentumInsert func(*nom.MomentumTransaction)

	stopped bool
}

var genesisCache sync.Map // *genesis.GenesisConfig -> *cachedGenesis

type cachedGenesis struct {
	store.Genesis
	momentum *nom.Momentum
	dump     []byte
}

func (c *cachedGenesis) GetGenesisTransaction() *nom.MomentumTransaction {
	p, err := db.NewPatchFromDump(append([]byte{}, c.dump...))
	must(err)
	return &nom.MomentumTransaction{Momentum: c.momentum, Changes: p}
}

func GenesisOf(cfg *genesis.GenesisConfig) store.Genesis {
	// The genesis transaction's change set is consumed (StealChanges) by the first chain that inserts it, so the real
	// object is built once per configuration and every node gets a wrapper that hands out a fresh copy of the same bytes.
	if v, ok := genesisCache.Load(cfg); ok {
		return v.(*cachedGenesis)
	}
	real := genesis.NewGenesis(cfg)
	tx := real.GetGenesisTransaction()
	cg := &cachedGenesis{Genesis: real, momentum: tx.Momentum, dump: tx.Changes.Dump()}
	genesisCache.Store(cfg, cg)
	return cg
}

func New(opts Options) *Node {
	Quiet()
	if opts.Genesis == nil {
		opts.Genesis = g.EmbeddedGenesis
	}
	if opts.PillarKeys == nil {
		opts.PillarKeys = g.PillarKeys
	}
	n := &Node{Opts: opts}
	n.open()
	return n
}

func (n *Node) open() {
	opts := n.Opts
	must(os.MkdirAll(opts.Dir, 0o755))
	n.Mgr = db.NewLevelDBManager(filepath.Join(opts.Dir, "nom"))
	// a fresh store.Genesis is not needed per node: it is immutable after construction
	ch := chain.NewChain(n.Mgr, GenesisOf(opts.Genesis))
	n.Chain = ch
	var cdb db.DB
	if opts.MemConsensus {
		cdb = db.NewMemDB()
	} else {
		cdb, n.consLDB = db.NewLevelDB(filepath.Join(opts.Dir, "consensus"))
	}
	n.Cons = consensus.NewConsensus(cdb, ch, true)
	n.Sup = vm.NewSupervisor(ch, n.Cons)
	n.Ver = verifier.NewVerifier(ch, n.Cons)
	n.Bridge = protocol.NewChainBridge(ch, n.Cons, n.Ver, vm.NewSupervisor(ch, n.Cons))
	must(ch.Init())
	must(n.Cons.Init())
	must(ch.Start())
	must(n.Cons.Start())
	n.Pillars = nil
	if !opts.NoPillars {
		for _, k := range opts.PillarKeys {
			p := pillar.NewPillar(ch, n.Cons, &recorder{n})
			p.SetCoinBase(k)
			must(p.Init())
			must(p.Start())
			n.Pillars = append(n.Pillars, p)
		}
	}
	n.stopped = false
}

func (n *Node) Stop() {
	if n.stopped {
		return
	}
	for _, p := range n.Pillars {
		must(p.Stop())
	}
	must(n.Cons.Stop())
	must(n.Chain.Stop())
	if n.consLDB != nil {
		must(n.consLDB.Close())
		n.consLDB = nil
	}
	n.stopped = true
}

// Restart closes the node and reopens it on the same directories (cold caches, empty pool).
func (n *Node) Restart() {
	n.Stop()
	n.open()
}

// RestartWipedConsensus is Restart with the consensus cache database removed.
func (n *Node) RestartWipedConsensus() {
	n.Stop()
	os.RemoveAll(filepath.Join(n.Opts.Dir, "consensus"))
	n.open()
}

func (n *Node) Destroy() {
	n.Stop()
	os.RemoveAll(n.Opts.Dir)
}

func must(err error) {
	if err != nil {
		panic(err)
	}
}

// ---------------------------------------------------------------------------------------------------------------------
// queries

func (n *Node) Frontier() *nom.Momentum {
	m, err := n.Chain.GetFrontierMomentumStore().GetFrontierMomentum()
	must(err)
	return m
}
func (n *Node) Height() uint64 { return n.Frontier().Height }

func (n *Node) Detailed(height uint64) *nom.DetailedMomentum {
	st := n.Chain.GetFrontierMomentumStore()
	m, err := st.GetMomentumByHeight(height)
	must(err)
	if m == nil {
		return nil
	}
	d, err := st.PrefetchMomentum(m)
	must(err)
	return d
}

// Range returns detailed momentums (from, to] heights inclusive of both ends: [from..to].
func (n *Node) Range(from, to uint64) []*nom.DetailedMomentum {
	out := make([]*nom.DetailedMomentum, 0, to-from+1)
	for h := from; h <= to; h++ {
		out = append(out, n.Detailed(h))
	}
	return out
}

type KV struct{ K, V []byte }

// Raw dumps the raw leveldb key space below prefix (nil = everything). Tombstones (keys stored with an empty value by
// the enable-delete layer) are dropped for the ledger prefix 0x55 when dropTombstones is set: a tombstoned key and an
// absent key are the same state for every reader the repository has.
func (n *Node) Raw(prefix []byte, dropTombstones bool) []KV {
	ldb := db.VerifLevelDB(n.Mgr)
	if ldb == nil {
		panic("not a leveldb manager")
	}
	return rawDump(ldb, prefix, dropTombstones)
}

func rawDump(ldb *leveldb.DB, prefix []byte, dropTombstones bool) []KV {
	snap, err := ldb.GetSnapshot()
	must(err)
	defer snap.Release()
	it := snap.NewIterator(nil, nil)
	defer it.Release()
	var out []KV
	for it.Next() {
		k := it.Key()
		if !bytes.HasPrefix(k, prefix) {
			continue
		}
		v := it.Value()
		if dropTombstones && len(v) == 0 && len(k) > 0 && k[0] == 0x55 {
			continue
		}
		out = append(out, KV{append([]byte{}, k...), append([]byte{}, v...)})
	}
	must(it.Error())
	return out
}

func DigestKV(kvs []KV) string {
	h := sha256.New()
	var l [8]byte
	for _, kv := range kvs {
		putLen(l[:], len(kv.K))
		h.Write(l[:])
		h.Write(kv.K)
		putLen(l[:], len(kv.V))
		h.Write(l[:])
		h.Write(kv.V)
	}
	return hex.EncodeToString(h.Sum(nil))[:32]
}
func putLen(b []byte, n int) {
	for i := 0; i < 8; i++ {
		b[i] = byte(n >> (8 * i))
	}
}

// LedgerDigest is the digest of the ledger key space (prefix 0x55, tombstones dropped).
func (n *Node) LedgerDigest() string { return DigestKV(n.Raw([]byte{0x55}, true)) }

// FullDigest covers ledger, redo and undo patches.
func (n *Node) FullDigest() string { return DigestKV(n.Raw(nil, true)) }

// DiffKV describes the first few differences between two dumps.
func DiffKV(a, b []KV) string {
	ma := map[string]string{}
	mb := map[string]string{}
	for _, kv := range a {
		ma[string(kv.K)] = string(kv.V)
	}
	for _, kv := range b {
		mb[string(kv.K)] = string(kv.V)
	}
	var keys []string
	for k := range ma {
		if v, ok := mb[k]; !ok || v != ma[k] {
			keys = append(keys, k)
		}
	}
	for k := range mb {
		if _, ok := ma[k]; !ok {
			keys = append(keys, k)
		}
	}
	sort.Strings(keys)
	s := fmt.Sprintf("%d differing keys (a=%d b=%d)", len(keys), len(a), len(b))
	for i, k := range keys {
		if i >= 6 {
			break
		}
		va, oka := ma[k]
		vb, okb := mb[k]
		s += fmt.Sprintf("\n  %x: a=%v:%.40x b=%v:%.40x", k, oka, va, okb, vb)
	}
	return s
}

// DumpDB dumps a db.DB view (key order, nil values dropped).
func DumpDB(d db.DB) []KV {
	it := d.NewIterator(nil)
	defer it.Release()
	var out []KV
	for it.Next() {
		v := it.Value()
		if v == nil {
			continue
		}
		out = append(out, KV{append([]byte{}, it.Key()...), append([]byte{}, v...)})
	}
	return out
}

// ViewDigest returns the digest of the historical view at id ("" if the node does not serve it).
func (n *Node) ViewDigest(id types.HashHeight) string {
	st := n.Chain.GetMomentumStore(id)
	if st == nil {
		return ""
	}
	it, ok := st.(interface {
		NewIterator([]byte) db.StorageIterator
	})
	if !ok {
		panic("momentum store does not expose an iterator")
	}
	iter := it.NewIterator(nil)
	defer iter.Release()
	var out []KV
	for iter.Next() {
		v := iter.Value()
		if v == nil {
			continue
		}
		out = append(out, KV{append([]byte{}, iter.Key()...), append([]byte{}, v...)})
	}
	return DigestKV(out)
}

// PoolBlocks returns the unconfirmed blocks sorted by (address, height).
func (n *Node) PoolBlocks() []*nom.AccountBlock {
	bs := n.Chain.GetAllUncommittedAccountBlocks()
	sort.Slice(bs, func(i, j int) bool {
		c := bytes.Compare(bs[i].Address.Bytes(), bs[j].Address.Bytes())
		if c != 0 {
			return c < 0
		}
		return bs[i].Height < bs[j].Height
	})
	return bs
}
func (n *Node) PoolDigest() string {
	h := sha256.New()
	for _, b := range n.PoolBlocks() {
		data, err := b.Serialize()
		must(err)
		h.Write(data)
	}
	return hex.EncodeToString(h.Sum(nil))[:16]
}

// ---------------------------------------------------------------------------------------------------------------------
// producing

// NextSlot is the start of the slot after the frontier momentum (slots are BlockTime=10s apart).
func (n *Node) NextSlot(skip int) time.Time {
	return n.Frontier().Timestamp.Add(time.Second * 10 * time.Duration(1+skip))
}

// Produce lets the pillar elected for slot t run one full producer event on this node (momentum, auto-receives,
// contract updates), exactly as mock.InsertNewMomentum does. Returns the created items.
func (n *Node) Produce(skip int) ([]Created, error) {
	t := n.NextSlot(skip)
	return n.ProduceAt(t)
}
func (n *Node) ProduceAt(t time.Time) ([]Created, error) {
	expected, err := n.Cons.GetMomentumProducer(t)
	if err != nil {
		return nil, err
	}
	Clock.Set(t)
	n.Created = nil
	n.LastProduceErr = nil
	found := false
	for _, p := range n.Pillars {
		if *p.GetCoinBase() == *expected {
			found = true
			task := p.Process(consensus.ProducerEvent{Producer: *expected, StartTime: t, EndTime: t.Add(10 * time.Second)})
			if task != nil {
				<-task.Finished()
			}
		}
	}
	if !found {
		return nil, fmt.Errorf("no local pillar for elected producer %v", expected)
	}
	out := n.Created
	n.Created = nil
	return out, n.LastProduceErr
}

// ProduceAs hands the local pillar with coinbase addr a producer event for slot t whether or not addr is elected for it
// (a pillar acting on a stale plan: consensus computes a tick's events once and fires them over the following minutes).
func (n *Node) ProduceAs(t time.Time, addr types.Address) ([]Created, error) {
	Clock.Set(t)
	n.Created = nil
	n.LastProduceErr = nil
	found := false
	for _, p := range n.Pillars {
		if *p.GetCoinBase() == addr {
			found = true
			task := p.Process(consensus.ProducerEvent{Producer: addr, StartTime: t, EndTime: t.Add(10 * time.Second)})
			if task != nil {
				<-task.Finished()
			}
		}
	}
	if !found {
		return nil, fmt.Errorf("no local pillar with coinbase %v", addr)
	}
	out := n.Created
	n.Created = nil
	return out, n.LastProduceErr
}

func SignerFor(addr types.Address) vm.SignFunc {
	for _, kp := range g.AllKeyPairs {
		if kp.Address == addr {
			return kp.Signer
		}
	}
	panic(fmt.Sprintf("no key for %v", addr))
}

// Generate fills in and signs a user block template against the node's current state without inserting it.
func (n *Node) Generate(template *nom.AccountBlock) (tx *nom.AccountBlockTransaction, err error) {
	defer func() {
		if r := recover(); r != nil {
			err = fmt.Errorf("panic in GenerateFromTemplate: %v", r)
		}
	}()
	return n.Sup.GenerateFromTemplate(template, SignerFor(template.Address))
}

// Submit generates and inserts (as own block) a user block.
func (n *Node) Submit(template *nom.AccountBlock) (*nom.AccountBlock, error) {
	tx, err := n.Generate(template)
	if err != nil {
		return nil, err
	}
	insert := n.Chain.AcquireInsert("vnode submit")
	err = n.Chain.AddAccountBlockTransaction(insert, tx)
	insert.Unlock()
	if err != nil {
		return nil, err
	}
	return tx.Block, nil
}

func (n *Node) Send(from, to types.Address, zts types.ZenonTokenStandard, amount *big.Int, data []byte) (*nom.AccountBlock, error) {
	return n.Submit(&nom.AccountBlock{BlockType: nom.BlockTypeUserSend, Address: from, ToAddress: to, TokenStandard: zts, Amount: amount, Data: data})
}
func (n *Node) Receive(addr types.Address, from types.Hash) (*nom.AccountBlock, error) {
	return n.Submit(&nom.AccountBlock{BlockType: nom.BlockTypeUserReceive, Address: addr, FromBlockHash: from})
}

// InsertChain calls the bridge with panic capture (a panic is an observation, not the end of the check).
func (n *Node) InsertChain(batch []*nom.DetailedMomentum) (idx int, err error, panicked interface{}) {
	defer func() {
		if r := recover(); r != nil {
			panicked = r
		}
	}()
	idx, err = n.Bridge.InsertChain(batch)
	return
}
func (n *Node) AddAccountBlocks(blocks []*nom.AccountBlock) (err error, panicked interface{}) {
	defer func() {
		if r := recover(); r != nil {
			panicked = r
		}
	}()
	err = n.Bridge.AddAccountBlocks(blocks)
	return
}

// CloneBlock / CloneDetailed give a receiver its own copy, as the wire would.
func CloneBlock(b *nom.AccountBlock) *nom.AccountBlock {
	data, err := b.Serialize()
	must(err)
	c, err := nom.DeserializeAccountBlock(data)
	must(err)
	return c
}
func CloneMomentum(m *nom.Momentum) *nom.Momentum {
	data, err := m.Serialize()
	must(err)
	c, err := nom.DeserializeMomentum(data)
	must(err)
	return c
}
func CloneDetailed(d *nom.DetailedMomentum) *nom.DetailedMomentum {
	out := &nom.DetailedMomentum{Momentum: CloneMomentum(d.Momentum)}
	for _, b := range d.AccountBlocks {
		out.AccountBlocks = append(out.AccountBlocks, CloneBlock(b))
	}
	return out
}
func CloneBatch(ds []*nom.DetailedMomentum) []*nom.DetailedMomentum {
	out := make([]*nom.DetailedMomentum, len(ds))
	for i, d := range ds {
		out[i] = CloneDetailed(d)
	}
	return out
}

// ---------------------------------------------------------------------------------------------------------------------
// consensus observations

// SmallConsensus shrinks the election tick to 3 slots (30 s) with 1 random slot and the epoch to `epochTicks` ticks, so
// that tick and epoch boundaries fall inside short chains. Must be called before any node is created in this process.
func SmallConsensus(epochTicks int) {
	constants.ConsensusConfig.NodeCount = 3
	constants.ConsensusConfig.RandCount = 1
	consensus.EpochDuration = time.Duration(epochTicks) * 30 * time.Second
}

// ConsensusDigest renders what the consensus module answers at the frontier: pillar weights, epoch statistics for every
// epoch up to the frontier's, and the elected producer of every slot of the next `slots` slots.
func (n *Node) ConsensusDigest(slots int) string {
	var sb bytes.Buffer
	pr := n.Cons.FrontierPillarReader()
	w, err := pr.GetPillarWeights()
	names := make([]string, 0, len(w))
	for k := range w {
		names = append(names, k)
	}
	sort.Strings(names)
	fmt.Fprintf(&sb, "weights(err=%v):", err)
	for _, k := range names {
		fmt.Fprintf(&sb, "%s=%v,", k, w[k])
	}
	f := n.Frontier()
	epoch := pr.EpochTicker().ToTick(*f.Timestamp)
	for e := uint64(0); e <= epoch; e++ {
		st, err := pr.EpochStats(e)
		fmt.Fprintf(&sb, "|epoch%d(err=%v):", e, err != nil)
		if st != nil {
			ps := make([]string, 0)
			for k := range st.Pillars {
				ps = append(ps, k)
			}
			sort.Strings(ps)
			fmt.Fprintf(&sb, "total=%v blocks=%d;", st.TotalWeight, st.TotalBlocks)
			for _, k := range ps {
				p := st.Pillars[k]
				fmt.Fprintf(&sb, "%s:%d/%d/%v,", k, p.BlockNum, p.ExceptedBlockNum, p.Weight)
			}
		}
	}
	for i := 0; i < slots; i++ {
		t := n.NextSlot(i)
		p, err := n.Cons.GetMomentumProducer(t)
		if err != nil || p == nil {
			fmt.Fprintf(&sb, "|slot%d:err", i)
		} else {
			fmt.Fprintf(&sb, "|slot%d:%s", i, p.String()[:10])
		}
	}
	return sb.String()
}

// ProduceMomentumOnly makes the elected pillar produce and insert the next momentum exactly as
// pillar.worker.generateMomentum + broadcaster.CreateMomentum do, but without the contract auto-receive and update
// phases that follow in a full producer event (a pillar whose task was stopped after broadcasting its momentum).
func (n *Node) ProduceMomentumOnly(skip int) error { return n.produceMomentumOnly(skip, false) }

// ProduceForeignEmptyMomentum inserts the momentum the elected pillar makes when its own node has the chain but none of
// the blocks pooled here (they have not reached it yet): an empty momentum. This node handles it like any momentum
// received from a peer and keeps (re-derives) its pool.
func (n *Node) ProduceForeignEmptyMomentum(skip int) error { return n.produceMomentumOnly(skip, true) }

// ForgeMomentum builds the momentum a misbehaving elected pillar could seal for the next slot (after `skip` skipped slots)
// with exactly `blocks` - pooled on this node - as content: changes hash over the pool's patches of those blocks, hash,
// signature of the pillar elected for the slot. The node's verifier and supervisor are not asked; nothing is inserted.
// The clock is moved to the slot (a receiver must not see the momentum as coming from the future).
func (n *Node) ForgeMomentum(skip int, blocks []*nom.AccountBlock) (*nom.DetailedMomentum, error) {
	t := n.NextSlot(skip)
	expected, err := n.Cons.GetMomentumProducer(t)
	if err != nil {
		return nil, err
	}
	var key *wallet.KeyPair
	for _, k := range n.Opts.PillarKeys {
		if k.Address == *expected {
			key = k
		}
	}
	if key == nil {
		return nil, fmt.Errorf("no key for elected producer %v", expected)
	}
	Clock.Set(t)
	prev := n.Frontier()
	m := &nom.Momentum{ChainIdentifier: n.Chain.ChainIdentifier(), PreviousHash: prev.Hash, Height: prev.Height + 1,
		TimestampUnix: uint64(t.Unix()), Content: nom.NewMomentumContent(blocks), Version: 1}
	ctx := vm_context.NewMomentumVMContext(n.Chain.GetMomentumStore(prev.Identifier()))
	for _, header := range m.Content {
		patch := n.Chain.GetPatch(header.Address, header.Identifier())
		if patch == nil {
			return nil, fmt.Errorf("block %v is not pooled", header)
		}
		if err := ctx.AddAccountBlockTransaction(*header, patch); err != nil {
			return nil, err
		}
	}
	changes, err := ctx.Changes()
	if err != nil {
		return nil, err
	}
	m.ChangesHash = db.PatchHash(changes)
	m.Hash = m.ComputeHash()
	m.Signature, _, m.PublicKey, _ = key.Signer(m.Hash.Bytes())
	d := &nom.DetailedMomentum{Momentum: m}
	for _, b := range blocks {
		d.AccountBlocks = append(d.AccountBlocks, CloneBlock(b))
	}
	return CloneBatch([]*nom.DetailedMomentum{d})[0], nil
}

func (n *Node) produceMomentumOnly(skip int, empty bool) error {
	t := n.NextSlot(skip)
	expected, err := n.Cons.GetMomentumProducer(t)
	if err != nil {
		return err
	}
	var key *wallet.KeyPair
	for _, k := range n.Opts.PillarKeys {
		if k.Address == *expected {
			key = k
		}
	}
	if key == nil {
		return fmt.Errorf("no key for elected producer %v", expected)
	}
	Clock.Set(t)
	insert := n.Chain.AcquireInsert("vnode momentum-only generate")
	st := n.Chain.GetFrontierMomentumStore()
	blocks := n.Chain.GetNewMomentumContent()
	if empty {
		blocks = nil
	}
	prev, err := st.GetFrontierMomentum()
	if err != nil {
		insert.Unlock()
		return err
	}
	m := &nom.Momentum{ChainIdentifier: n.Chain.ChainIdentifier(), PreviousHash: prev.Hash, Height: prev.Height + 1,
		TimestampUnix: uint64(t.Unix()), Content: nom.NewMomentumContent(blocks), Version: 1}
	m.EnsureCache()
	tx, err := n.Sup.GenerateMomentum(&nom.DetailedMomentum{Momentum: m, AccountBlocks: blocks}, key.Signer)
	insert.Unlock()
	if err != nil {
		return err
	}
	insert = n.Chain.AcquireInsert("vnode momentum-only insert")
	err = n.Chain.AddMomentumTransaction(insert, tx)
	insert.Unlock()
	return err
}
