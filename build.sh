#!/bin/bash
# Builds the checker binary from /verif/mc against /repo's current working tree (hooks on: -tags verif + generated overlay).
set -e
export GOFLAGS=-mod=mod GOPROXY=off GOSUMDB=off GOTOOLCHAIN=local GOCACHE=/verif/.work/gocache
mkdir -p /verif/.work/bin /verif/.work/tmp
cd /verif/mc
cp /repo/go.sum go.sum 2>/dev/null || true
OVERLAY=""
if [ -x /verif/overlay/gen.sh ]; then /verif/overlay/gen.sh && OVERLAY="-overlay /verif/.work/overlay.json"; fi
go build -tags verif $OVERLAY -o /verif/.work/bin/zmc ./cmd/zmc
# the free-running -race passes of C14 and C05 need its own instrumented binary (built when C14 is asked for,
# or always with VERIF_BUILD_RACE=1: setup.sh warms it)
if [ "$1" = "C14" ] || [ "$1" = "C05" ] || [ "$1" = "C07" ] || [ -n "$VERIF_BUILD_RACE" ]; then
  go build -race -tags verif $OVERLAY -o /verif/.work/bin/zmc-race ./cmd/zmc-race
fi
