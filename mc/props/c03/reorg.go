package c03

import (
	"fmt"

	"github.com/zenon-network/go-zenon/chain/nom"
	"github.com/zenon-network/go-zenon/common/types"

	"verifmc/internal/ops"
	"verifmc/internal/vnode"
	"verifmc/internal/xs"
)

// "Only valid account blocks are EVER accepted", across a reorganisation: blocks the node accepted into its pool while
// they were valid (they acknowledge the frontier momentum X, or receive a send that only X confirmed) stop being valid
// when X is rolled back for a longer branch. Enumerated: which of those blocks the pool holds at the switch (every subset
// of three) x whether X itself carries a block. After the switch the node, a pillar, produces two momentums; then every
// account block of its ledger is audited against the node's own chain: the acknowledged momentum is on the chain, a
// receive's send is confirmed on the chain at or below the acknowledged momentum.

type reorgCase struct {
	Part    string `json:"part"` // "reorg"
	Pooled  int    `json:"pooled"`
	Content bool   `json:"content"`
}

func reorgPart(c *xs.Ctx, r *xs.Result, only *reorgCase) {
	for pooled := 1; pooled < 8; pooled++ {
		for _, content := range []bool{false, true} {
			rc := reorgCase{"reorg", pooled, content}
			if only != nil && *only != rc {
				continue
			}
			runReorg(c, r, rc)
		}
	}
}

func runReorg(c *xs.Ctx, r *xs.Result, rc reorgCase) {
	n := vnode.New(vnode.Options{Dir: c.TempDir()})
	defer n.Destroy()
	okOp(n, ops.Op{K: "T", A: 0, B: 1, V: 500})
	okOp(n, M)
	okOp(n, M)
	L := n.Height()
	q := vnode.New(vnode.Options{Dir: c.TempDir()})
	defer q.Destroy()
	if _, err, pan := q.InsertChain(vnode.CloneBatch(n.Range(2, L))); err != nil || pan != nil {
		panic(fmt.Sprintf("harness: twin sync: %v %v", err, pan))
	}
	// branch A on the node: momentum X confirms a send of user 6 to user 7 (and, optionally, a block of user 5)
	okOp(n, ops.Op{K: "T", A: 6, B: 7, V: 4})
	if rc.Content {
		okOp(n, ops.Op{K: "T", A: 5, B: 2, V: 1})
	}
	okOp(n, M)
	x := n.Frontier().Identifier()
	// blocks accepted into the pool on top of X, by accounts that have no block in X
	if rc.Pooled&1 != 0 {
		okOp(n, ops.Op{K: "T", A: 9, B: 8, V: 3}) // acknowledges X
	}
	if rc.Pooled&2 != 0 {
		okOp(n, ops.Op{K: "R", A: 7}) // receives the send only X confirmed
	}
	if rc.Pooled&4 != 0 {
		okOp(n, ops.Op{K: "Call", S: "stake", A: 3, V: 10}) // a contract call acknowledging X
	}
	nPool := len(n.PoolBlocks())
	// branch B: two momentums with other content, the first after a skipped slot
	okOp(q, ops.Op{K: "T", A: 4, B: 2, V: 9})
	okOp(q, ops.Op{K: "M", V: 1})
	okOp(q, M)
	if _, err, pan := n.InsertChain(vnode.CloneBatch(q.Range(L+1, q.Height()))); err != nil || pan != nil {
		r.Violate("C03:reorg:longer-valid-branch-refused", fmt.Sprintf("%+v: InsertChain of the longer branch: err=%v panic=%v", rc, err, pan), rc)
		return
	}
	switched := n.Frontier().Hash == q.Frontier().Hash
	if !switched {
		// whether a node must adopt the longer branch is C16's question; the audit below holds for whatever chain it is on
		r.Count("reorg_node_did_not_switch", 1)
	}
	out1 := ops.Apply(n, M)
	out2 := ops.Apply(n, M)
	r.Count("reorg_cases", 1)
	r.Count("reorg_blocks_pooled_at_switch", int64(nPool))
	r.Add("reorg_outcomes", fmt.Sprintf("pool%d->%s,%s", nPool, out1, out2))
	// audit of the whole ledger against the node's own chain
	st := n.Chain.GetFrontierMomentumStore()
	confirmedAt := map[types.Hash]uint64{}
	for h := uint64(1); h <= n.Height(); h++ {
		d := n.Detailed(h)
		for _, b := range d.AccountBlocks {
			for _, e := range append([]*nom.AccountBlock{b}, b.DescendantBlocks...) {
				confirmedAt[e.Hash] = h
			}
		}
	}
	for h := uint64(2); h <= n.Height(); h++ {
		for _, b := range n.Detailed(h).AccountBlocks {
			r.Count("reorg_blocks_audited", 1)
			ma := b.MomentumAcknowledged
			m, err := st.GetMomentumByHeight(ma.Height)
			if err != nil || m == nil || m.Hash != ma.Hash || ma.Height >= h {
				what := "is not on the node's chain"
				if ma == x {
					what = "is the momentum the node rolled back"
				}
				r.Violate("C03:reorg:confirmed-block-acknowledges-a-momentum-not-on-the-chain", fmt.Sprintf("%+v: momentum %d confirms block %v@%d (type %d) whose acknowledged momentum %v %s",
					rc, h, b.Address, b.Height, b.BlockType, ma, what), rc)
				return
			}
			if b.BlockType == nom.BlockTypeUserReceive || b.BlockType == nom.BlockTypeContractReceive {
				if at, ok := confirmedAt[b.FromBlockHash]; !ok || at > ma.Height {
					r.Violate("C03:reorg:confirmed-receive-of-a-send-the-chain-does-not-confirm", fmt.Sprintf("%+v: momentum %d confirms %v@%d receiving %v, which the node's chain does not confirm at or below the acknowledged momentum %d",
						rc, h, b.Address, b.Height, b.FromBlockHash, ma.Height), rc)
					return
				}
			}
		}
	}
}
