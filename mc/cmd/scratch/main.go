package main

import (
	"fmt"
	"os"

	"verifmc/internal/ops"
	"verifmc/internal/vnode"
	_ "verifmc/props/c04"
)

func main() {
	dir, _ := os.MkdirTemp("/dev/shm", "scratch")
	defer os.RemoveAll(dir)
	n := vnode.New(vnode.Options{Dir: dir + "/n"})
	M := ops.Op{K: "M"}
	for _, o := range []ops.Op{{K: "Call", S: "stake", A: 1, V: 10}, M, {K: "Call", S: "stake", A: 2, V: 20}, {K: "Reorg"}, M, M} {
		fmt.Println(o, "->", ops.Apply(n, o), "height", n.Height())
		for _, b := range n.PoolBlocks() {
			fmt.Printf("   pool: type=%d addr=%v h=%d from=%v ack=%d\n", b.BlockType, b.Address.String()[:12], b.Height, b.FromBlockHash.String()[:8], b.MomentumAcknowledged.Height)
		}
	}
}
