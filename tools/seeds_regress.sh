#!/bin/bash
# tools/seeds_regress.sh [tier] — run every kept seeded change (/verif/seeded/<ID>/patch.diff) against the check of its
# property (tools/mutcheck.sh: /repo is not touched) and report whether it is still detected (exit 1 = detected).
TIER=${1:-quick}
for d in /verif/seeded/*/; do
  id=$(basename $d)
  [ -f $d/patch.diff ] || continue
  chk=${id:0:3}   # second-round seeds are kept as <ID>b
  out=$(/verif/tools/mutcheck.sh $chk $d/patch.diff $TIER 2>&1); code=$?
  n=$(echo "$out" | grep -c '^VIOLATION')
  echo "$id: exit=$code violations=$n $(echo "$out" | grep '^VIOLATION' | head -1 | sed 's#.*replays/[^/]*/##')"
done
