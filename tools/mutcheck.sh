#!/bin/bash
# tools/mutcheck.sh <ID> <patch.diff> [tier]   — run check <ID> against /repo + a candidate change WITHOUT touching /repo.
# The patch (git diff format, paths relative to the repository root) is applied to copies of the affected files; the
# copies are overlaid on /repo at build time. Evidence/replays of this run go to a private directory, not /verif/evidence.
# Exit status = the check's exit status (1 = the change was detected).
set -e
ID=$1; PATCH=$(readlink -f "$2"); TIER=${3:-quick}
T=$(mktemp -d /tmp/mut.XXXXXX); trap 'rm -rf $T' EXIT
mkdir -p $T/src $T/ov
for f in $(grep -E '^\+\+\+ b/' "$PATCH" | sed 's#^+++ b/##'); do
  mkdir -p $T/src/$(dirname $f); [ -f /repo/$f ] && cp /repo/$f $T/src/$f
done
(cd $T/src && patch -s -p1 < "$PATCH")
export GOFLAGS=-mod=mod GOPROXY=off GOSUMDB=off GOTOOLCHAIN=local GOCACHE=/verif/.work/gocache
VERIF_OVERRIDE_DIR=$T/src VERIF_OVERLAY_DIR=$T/ov VERIF_OVERLAY_JSON=$T/overlay.json python3 /verif/overlay/gen.py
MAIN=./cmd/zmc; [ -d /verif/mc/cmd/dev-$(echo $ID | tr A-Z a-z) ] && [ -n "$MUT_DEV" ] && MAIN=./cmd/dev-$(echo $ID | tr A-Z a-z)
(cd /verif/mc && go build -tags verif -overlay $T/overlay.json -o $T/zmc $MAIN) || { echo "MUTANT DOES NOT BUILD"; exit 3; }
if [ "$ID" = "C14" ] || [ "$ID" = "C05" ] || [ "$ID" = "C07" ]; then (cd /verif/mc && go build -race -tags verif -overlay $T/overlay.json -o $T/zmc-race ./cmd/zmc-race) && export VERIF_RACE_BIN=$T/zmc-race; fi
set +e
VERIF_OUT_DIR=$T/out $T/zmc $ID $TIER | grep -v "^  " | cut -c1-300
exit ${PIPESTATUS[0]}
