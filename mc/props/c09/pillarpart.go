package c09

import (
	"fmt"
	"math/big"

	"github.com/zenon-network/go-zenon/chain/nom"
	"github.com/zenon-network/go-zenon/common/types"
	"github.com/zenon-network/go-zenon/vm/constants"
	"github.com/zenon-network/go-zenon/vm/embedded/definition"

	"verifmc/internal/vnode"
	"verifmc/internal/xs"
)

// The rest of this check drives receive generation through the supervisor directly (the pillar's task goroutine re-panics,
// which would end the worker process). This part goes through the real pillar worker: whichever pillar confirmed a call,
// and whether or not that pillar got as far as its inbox phase, the next pillar that runs a complete producer event
// receives it - applied or refunded - and leaves every inbox empty.
//
// Scenarios: k in {1, 2} momentums of pillars whose task ended right after broadcasting the momentum (momentum only), then
// complete producer events; three calls sent before the first momentum: one that is applied (plasma Fuse), one that
// fails and must be refunded (sentinel Register without the QSR deposit), one to a third contract (stake).
func pillarWorkerPart(c *xs.Ctx, r *xs.Result) {
	for _, stopped := range []int{1, 2} {
		n := vnode.New(vnode.Options{Dir: c.TempDir()})
		owner, rich := actors[aOwner].Key, actors[aRich].Key
		rep := map[string]interface{}{"part": "pillar-worker", "stopped": stopped}
		type call struct {
			name string
			blk  *nom.AccountBlock
			err  error
		}
		var calls []*call
		send := func(name string, t *nom.AccountBlock) {
			b, err := n.Submit(t)
			calls = append(calls, &call{name, b, err})
		}
		send("plasma.Fuse", &nom.AccountBlock{BlockType: nom.BlockTypeUserSend, Address: owner.Address, ToAddress: types.PlasmaContract, TokenStandard: qsr, Amount: big8(10),
			Data: definition.ABIPlasma.PackMethodPanic(definition.FuseMethodName, owner.Address)})
		send("sentinel.Register(no deposit)", &nom.AccountBlock{BlockType: nom.BlockTypeUserSend, Address: rich.Address, ToAddress: types.SentinelContract, TokenStandard: znn,
			Amount: new(big.Int).Set(constants.SentinelZnnRegisterAmount), Data: definition.ABISentinel.PackMethodPanic(definition.RegisterSentinelMethodName)})
		send("stake.Stake", &nom.AccountBlock{BlockType: nom.BlockTypeUserSend, Address: actors[aStranger].Key.Address, ToAddress: types.StakeContract, TokenStandard: znn, Amount: big8(10),
			Data: definition.ABIStake.PackMethodPanic(definition.StakeMethodName, int64(constants.StakeTimeMinSec))})
		for _, cl := range calls {
			if cl.err != nil {
				panic(fmt.Sprintf("pillar-worker part: scripted call %s refused: %v", cl.name, cl.err))
			}
		}
		for i := 0; i < stopped; i++ {
			if err := n.ProduceMomentumOnly(0); err != nil {
				panic(fmt.Sprintf("pillar-worker part: momentum refused: %v", err))
			}
		}
		// two complete producer events: the first must receive everything, the second confirms the receive blocks
		for ev := 0; ev < 2; ev++ {
			if _, err := n.Produce(0); err != nil {
				r.Violate("C09:pillar-worker:producer-event-fails", fmt.Sprintf("%d momentums of stopped pillars, then complete producer event %d: %v", stopped, ev+1, err), rep)
			}
			r.Count("pillar_worker_events", 1)
			if ev == 0 {
				for _, ca := range types.EmbeddedContracts {
					if hd := inboxHead(n, ca); hd != nil {
						r.Violate("C09:pillar-worker:call-left-in-inbox-after-a-complete-producer-event",
							fmt.Sprintf("three calls were confirmed by the momentum of a pillar whose task ended before its inbox phase (%d such momentums); the next pillar ran a complete producer event, yet send %v (data %x) is still waiting in the inbox of %s",
								stopped, hd.Hash, hd.Data, contractNameOf(ca)), rep)
					}
				}
			}
		}
		// every call has exactly one confirmed receive; the failing one was refunded in full
		st := n.Chain.GetFrontierMomentumStore()
		for _, cl := range calls {
			rb, err := st.GetBlockWhichReceives(cl.blk.Hash)
			if err != nil || rb == nil {
				r.Violate("C09:pillar-worker:accepted-call-never-received", fmt.Sprintf("%s (send %v) has no confirmed receive block after two complete producer events (%d stopped pillars before)", cl.name, cl.blk.Hash, stopped), rep)
				continue
			}
			if cl.name == "sentinel.Register(no deposit)" {
				full, err := st.GetAccountBlockByHash(rb.Hash)
				ok := err == nil && full != nil && len(full.DescendantBlocks) == 1 && full.DescendantBlocks[0].ToAddress == cl.blk.Address &&
					full.DescendantBlocks[0].Amount.Cmp(cl.blk.Amount) == 0 && full.DescendantBlocks[0].TokenStandard == cl.blk.TokenStandard
				if !ok {
					r.Violate("C09:pillar-worker:failed-call-not-refunded", fmt.Sprintf("%s: the receive block does not refund the sent amount", cl.name), rep)
				}
			}
			r.Count("pillar_worker_calls_received", 1)
		}
		n.Destroy()
	}
}
