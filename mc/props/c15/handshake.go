package c15

import (
	"crypto/ecdsa"
	"fmt"
	"net"
	"sync"
	"time"

	"github.com/ethereum/go-ethereum/crypto"

	"github.com/zenon-network/go-zenon/p2p"

	"verifmc/internal/xs"
)

// Part (d): a remote peer that stops sending before, during or right after the handshakes. The transport calls that
// Server.setupConn makes for an inbound connection (newRLPX, encryption handshake, protocol handshake) run on one end of
// a net.Pipe whose deadline calls are recorded; the other end plays every stalling script of the menu below with the
// real initiator code. setupConn runs on a goroutine that holds one of the server's MaxPendingPeers slots until it
// returns, so a wait without a deadline lets a peer keep the slot for ever (fifty such peers: no inbound connection is
// ever accepted again).
//
// Oracle, evaluated at the moment the server side is blocked in a read that no further byte will ever satisfy: a read
// deadline is armed on the connection, and it lies within a minute (the repository's budgets are 5 s for the handshakes
// and 30 s per frame). No verdict depends on elapsed time: the deadline is read, not waited for; the script then closes
// its end and the server side must return an error.

type recConn struct {
	net.Conn
	mu        sync.Mutex
	readDL    time.Time
	dlCalls   int
	reading   int
	readCalls int
}

func (c *recConn) SetDeadline(t time.Time) error {
	c.mu.Lock()
	c.readDL = t
	c.dlCalls++
	c.mu.Unlock()
	return c.Conn.SetDeadline(t)
}
func (c *recConn) SetReadDeadline(t time.Time) error {
	c.mu.Lock()
	c.readDL = t
	c.dlCalls++
	c.mu.Unlock()
	return c.Conn.SetReadDeadline(t)
}
func (c *recConn) Read(p []byte) (int, error) {
	c.mu.Lock()
	c.reading++
	c.readCalls++
	c.mu.Unlock()
	n, err := c.Conn.Read(p)
	c.mu.Lock()
	c.reading--
	c.mu.Unlock()
	return n, err
}
func (c *recConn) snapshot() (reading, readCalls int, dl time.Time) {
	c.mu.Lock()
	defer c.mu.Unlock()
	return c.reading, c.readCalls, c.readDL
}

func hsKey(tag string) *ecdsa.PrivateKey {
	k, err := crypto.ToECDSA(crypto.Keccak256([]byte("verif-c15-handshake-key-" + tag)))
	if err != nil {
		panic(err)
	}
	return k
}

// drain reads and discards whatever the server side writes (a peer that receives but does not answer).
func drain(c net.Conn) {
	go func() {
		buf := make([]byte, 4096)
		for {
			if _, err := c.Read(buf); err != nil {
				return
			}
		}
	}()
}

type stallScript struct {
	name string
	// play sends what the script sends on peer (the remote end) and returns when it has nothing more to send
	play func(peer net.Conn, srvPub *ecdsa.PublicKey) error
}

// firstWrite runs the real initiator against a scratch pipe and returns the first message it writes (the auth message).
func firstWrite(srvPub *ecdsa.PublicKey) []byte {
	x, y := net.Pipe()
	defer x.Close()
	defer y.Close()
	go p2p.VerifDialEncHandshake(x, hsKey("peer"), srvPub)
	buf := make([]byte, 4096)
	y.SetReadDeadline(time.Now().Add(20 * time.Second))
	n, err := y.Read(buf)
	if err != nil {
		panic(fmt.Sprintf("C15 part d: the initiator wrote no auth message: %v", err))
	}
	return buf[:n]
}

func stallScripts() []stallScript {
	encThen := func(after func(peer net.Conn) error) func(net.Conn, *ecdsa.PublicKey) error {
		return func(peer net.Conn, srvPub *ecdsa.PublicKey) error {
			if err := p2p.VerifDialEncHandshake(peer, hsKey("peer"), srvPub); err != nil {
				return fmt.Errorf("initiator encryption handshake: %v", err)
			}
			peer.SetDeadline(time.Time{}) // the initiator's own handshake deadline is not the node's business
			drain(peer)
			return after(peer)
		}
	}
	truncAuth := func(k int) func(net.Conn, *ecdsa.PublicKey) error {
		return func(peer net.Conn, srvPub *ecdsa.PublicKey) error {
			auth := firstWrite(srvPub)
			if k > len(auth) {
				k = len(auth) - 1
			}
			_, err := peer.Write(auth[:k])
			return err
		}
	}
	write := func(b []byte) func(net.Conn) error {
		return func(peer net.Conn) error { _, err := peer.Write(b); return err }
	}
	return []stallScript{
		{"silent-from-the-start", func(net.Conn, *ecdsa.PublicKey) error { return nil }},
		{"auth-message-first-byte-only", truncAuth(1)},
		{"auth-message-all-but-last-byte", truncAuth(1 << 20)},
		{"encryption-handshake-done-then-silent", encThen(func(net.Conn) error { return nil })},
		{"encryption-handshake-done-then-1-byte-of-a-frame", encThen(write([]byte{0x5a}))},
		{"encryption-handshake-done-then-31-bytes-of-a-frame-header", encThen(write(make([]byte, 31)))},
	}
}

const hsMaxDeadline = time.Minute

func partD(c *xs.Ctx, r *xs.Result, only string) {
	if c.NShards > 1 && c.Shard != 0 && only == "" {
		return
	}
	srvKey := hsKey("server")
	for _, sc := range stallScripts() {
		if only != "" && only != sc.name {
			continue
		}
		r.Count("d_cases", 1)
		a, b := net.Pipe()
		srv := &recConn{Conn: a}
		done := make(chan error, 1)
		go func() { done <- p2p.VerifServerHandshakes(srv, srvKey) }()
		played := make(chan error, 1)
		go func() { played <- sc.play(b, &srvKey.PublicKey) }()
		viol := func(kind, what string) {
			r.Violate("C15:handshake-stall:"+kind+":"+sc.name, fmt.Sprintf("peer script %q: %s", sc.name, what), map[string]string{"part": "d", "case": sc.name})
		}
		var perr error
		select {
		case perr = <-played:
		case <-time.After(30 * time.Second):
			perr = fmt.Errorf("the script did not finish within 30 s")
		}
		if perr != nil {
			// the script could not be played (the server side refused earlier than the script assumes): nothing to judge
			r.Count("d_script_not_playable", 1)
			r.Note("C15 part d: script %s not playable: %v", sc.name, perr)
			b.Close()
			<-done
			continue
		}
		// wait until the server side sits in a read (nothing more will be sent) or has given up on the connection
		blocked, finished := false, false
		var dl time.Time
		lastCalls, stable := -1, 0
		for i := 0; i < 5000 && !blocked && !finished; i++ {
			select {
			case <-done:
				finished = true
				continue
			default:
			}
			reading, calls, d := srv.snapshot()
			if reading > 0 && calls == lastCalls {
				stable++
			} else {
				stable = 0
			}
			lastCalls = calls
			if stable >= 10 {
				blocked, dl = true, d
				break
			}
			time.Sleep(2 * time.Millisecond)
		}
		switch {
		case finished:
			r.Add("d_outcomes", sc.name+"|dropped-at-once")
		case !blocked:
			r.Count("harness_d_never_settled", 1)
			r.Incomplete = true
		case dl.IsZero():
			r.Add("d_outcomes", sc.name+"|waits-without-deadline")
			viol("no-deadline", "the node waits for the peer's next byte with no read deadline armed on the connection: the connection, its goroutine and its pending-peer slot are held until the peer chooses to close")
		case time.Until(dl) > hsMaxDeadline:
			r.Add("d_outcomes", sc.name+"|deadline-too-far")
			viol("deadline-too-far", fmt.Sprintf("the read deadline armed while waiting for the peer lies %s ahead", time.Until(dl).Round(time.Second)))
		default:
			r.Add("d_outcomes", sc.name+"|waits-with-deadline")
			r.Count("d_waits_with_deadline", 1)
		}
		// the peer goes away: the server side must come back with an error
		b.Close()
		if !finished {
			select {
			case err := <-done:
				if err == nil {
					viol("handshake-succeeded", "the handshakes reported success although the peer never completed them")
				}
			case <-time.After(time.Minute):
				viol("no-return-after-close", "the server side did not return within a minute after the peer closed the connection")
			}
		}
		a.Close()
	}
}

// ---------------------------------------------------------------------------------------------------------------------
// Part (e): the accept loop of a real p2p.Server (loopback TCP, MaxPendingPeers = 2) keeps serving after rejected
// inbound connections. For every bad-connection script, five connections (more than twice the pending slots) are made
// and dropped one after the other; after each batch a probe peer must still get through the encryption handshake (the
// server answers an auth message only from setupConn, i.e. after its accept loop took the connection).
//
// The only wait in the verdict is the initiator's own 5 s handshake deadline inside the real code; a probe that fails is
// repeated twice on fresh connections and reported only if all three fail. Where the sandbox offers no loopback listener
// the part is skipped and says so.

type badScript struct {
	name string
	play func(c net.Conn, srvPub *ecdsa.PublicKey)
}

func badScripts() []badScript {
	return []badScript{
		{"connect-and-hang-up", func(c net.Conn, _ *ecdsa.PublicKey) {}},
		{"garbage-instead-of-auth", func(c net.Conn, _ *ecdsa.PublicKey) {
			junk := make([]byte, 400)
			for i := range junk {
				junk[i] = byte(i*7 + 3)
			}
			c.Write(junk)
		}},
		{"auth-truncated-then-hang-up", func(c net.Conn, pub *ecdsa.PublicKey) {
			auth := firstWrite(pub)
			c.Write(auth[:len(auth)/2])
		}},
		{"encryption-handshake-then-garbage-frame", func(c net.Conn, pub *ecdsa.PublicKey) {
			if err := p2p.VerifDialEncHandshake(c, hsKey("peer"), pub); err != nil {
				return
			}
			c.SetDeadline(time.Now().Add(5 * time.Second))
			c.Write(make([]byte, 64))
		}},
	}
}

func partE(c *xs.Ctx, r *xs.Result, only string) {
	if c.NShards > 1 && c.Shard != 1%c.NShards && only == "" {
		return
	}
	srvKey := hsKey("accept-server")
	stop := make(chan struct{})
	srv := &p2p.Server{PrivateKey: srvKey, MaxPeers: 10, MaxPendingPeers: 2, Name: "verif-c15", ListenAddr: "127.0.0.1:0", NoDial: true,
		Protocols: []p2p.Protocol{{Name: "verif", Version: 1, Length: 1, Run: func(*p2p.Peer, p2p.MsgReadWriter) error { <-stop; return nil }}}}
	if err := srv.Start(); err != nil {
		r.Count("e_skipped_no_listener", 1)
		r.Note("C15 part e skipped: the p2p server could not listen on loopback: %v", err)
		return
	}
	defer func() { close(stop); srv.Stop() }()
	addr := srv.ListenAddr
	dial := func() (net.Conn, error) { return net.DialTimeout("tcp", addr, 10*time.Second) }
	probe := func() error {
		var last error
		for attempt := 0; attempt < 3; attempt++ {
			conn, err := dial()
			if err != nil {
				last = fmt.Errorf("dial: %v", err)
				continue
			}
			err = p2p.VerifDialEncHandshake(conn, hsKey(fmt.Sprintf("probe-%d", attempt)), &srvKey.PublicKey)
			conn.Close()
			if err == nil {
				return nil
			}
			last = err
		}
		return last
	}
	if err := probe(); err != nil {
		r.Count("e_skipped_no_listener", 1)
		r.Note("C15 part e skipped: a first peer cannot reach the freshly started server over loopback: %v", err)
		return
	}
	for _, sc := range badScripts() {
		if only != "" && only != sc.name {
			continue
		}
		r.Count("e_cases", 1)
		for i := 0; i < 5; i++ {
			conn, err := dial()
			if err != nil {
				r.Note("C15 part e: dial for %s #%d: %v", sc.name, i, err)
				continue
			}
			sc.play(conn, &srvKey.PublicKey)
			conn.Close()
			r.Count("e_bad_connections", 1)
		}
		if err := probe(); err != nil {
			r.Add("e_outcomes", sc.name+"|next-peer-not-served")
			r.Violate("C15:accept-loop-stops-serving:"+sc.name, fmt.Sprintf("after five inbound connections of kind %q were dropped (server with 2 pending-peer slots), a new peer no longer gets through the encryption handshake, three attempts: %v", sc.name, err),
				map[string]string{"part": "e", "case": sc.name})
			return // the server is wedged: later scripts would only repeat the finding
		}
		r.Add("e_outcomes", sc.name+"|next-peer-served")
	}
}
