package c09

import (
	"bytes"
	"fmt"
	"math/big"
	"sort"

	gm "github.com/zenon-network/go-zenon/chain/genesis/mock"
	"github.com/zenon-network/go-zenon/chain/nom"
	"github.com/zenon-network/go-zenon/common"
	"github.com/zenon-network/go-zenon/common/types"
	"github.com/zenon-network/go-zenon/vm/constants"
	"github.com/zenon-network/go-zenon/vm/embedded/definition"
	"github.com/zenon-network/go-zenon/vm/embedded/implementation"

	"verifmc/internal/vnode"
	"verifmc/internal/xs"
)

// contractState: storage and balances of a contract account as the next receive will see them (pool view).
func contractState(n *vnode.Node, a types.Address) string {
	acc := n.Chain.GetFrontierAccountStore(a)
	d := vnode.DigestKV(vnode.DumpDB(acc.Storage()))
	bm, err := acc.GetBalanceMap()
	must(err)
	var ks []string
	for z, b := range bm {
		if b.Sign() != 0 {
			ks = append(ks, z.String()+"="+b.String())
		}
	}
	sort.Strings(ks)
	return d + fmt.Sprint(ks)
}

// probe: a cheap, always well-formed call to the contract, sent by an account no case uses.
func probeCall(c *contractDef, rg regime) *nom.AccountBlock {
	from := probeKey.Address
	mk := func(zts types.ZenonTokenStandard, amount *big.Int, data []byte) *nom.AccountBlock {
		return &nom.AccountBlock{BlockType: nom.BlockTypeUserSend, Address: from, ToAddress: c.Addr, TokenStandard: zts, Amount: amount, Data: data}
	}
	switch c.Name {
	case "plasma":
		return mk(qsr, new(big.Int).Set(constants.FuseMinAmount), definition.ABIPlasma.PackMethodPanic(definition.FuseMethodName, from))
	case "pillar":
		return mk(qsr, big.NewInt(1), definition.ABIPillars.PackMethodPanic(definition.DepositQsrMethodName))
	case "token":
		return mk(znn, big.NewInt(1), definition.ABIToken.PackMethodPanic(definition.BurnMethodName))
	case "sentinel":
		return mk(qsr, big.NewInt(1), definition.ABISentinel.PackMethodPanic(definition.DepositQsrMethodName))
	case "swap":
		sig, err := implementation.SignRetrieveAssetsMessage(from, gm.Secp2PrvKey, gm.Secp2PubKeyB64)
		must(err)
		return mk(znn, big.NewInt(0), definition.ABISwap.PackMethodPanic(definition.RetrieveAssetsMethodName, gm.Secp2PubKeyB64, sig))
	case "stake":
		return mk(znn, new(big.Int).Set(constants.StakeMinAmount), definition.ABIStake.PackMethodPanic(definition.StakeMethodName, int64(constants.StakeTimeMinSec)))
	case "spork":
		return &nom.AccountBlock{BlockType: nom.BlockTypeUserSend, Address: actors[aSpork].Key.Address, ToAddress: c.Addr, TokenStandard: znn, Amount: big.NewInt(0),
			Data: definition.ABISpork.PackMethodPanic(definition.SporkCreateMethodName, "c09-probe", "probe")}
	case "liquidity", "accelerator":
		return mk(znn, big.NewInt(1), definition.ABICommon.PackMethodPanic(definition.DonateMethodName))
	case "htlc":
		return mk(znn, big.NewInt(1), definition.ABIHtlc.PackMethodPanic(definition.CreateHtlcMethodName, from, genesisT+400*24*3600, uint8(0), uint8(32), make([]byte, 32)))
	case "bridge":
		return mk(znn, big.NewInt(0), definition.ABIBridge.PackMethodPanic(definition.UnhaltMethodName))
	}
	panic("no probe for " + c.Name)
}

// verdict of one executed call
type verdict struct {
	Accepted bool
	SendErr  error
	Outcome  string // applied | refunded | a violation outcome
	Key      string // violation key suffix ("" = fine)
	What     string
	Gens     int // receive generations executed
	Steps    int // producer/receive steps executed
	Send     *nom.AccountBlock
}

func (v *verdict) violate(outcome, what string) {
	if v.Key == "" {
		v.Outcome, v.Key, v.What = outcome, outcome, what
	}
}

// execute runs one call on the pair: submit, confirm, drive the producer path for the inbox head, check the oracle,
// insert, confirm, follower, probe.
func execute(pr *pair, env *stateEnv, id *caseID) *verdict {
	v := &verdict{}
	c := contractByName(id.Contract)
	P := pr.P
	send, err := id.submit(env, P, true)
	if err != nil {
		v.SendErr = err
		return v
	}
	v.Accepted, v.Send = true, send
	if c.Name == "spork" {
		// a spork created or activated by a case must not make znnd terminate itself ("unimplemented spork")
		types.ImplementedSporksMap[send.Hash] = true
	}
	if err := P.ProduceMomentumOnly(0); err != nil {
		v.violate("producer-momentum-refused", fmt.Sprintf("momentum confirming the send was refused: %v", err))
		return v
	}
	v.Steps++
	head := inboxHead(P, c.Addr)
	if head == nil || head.Hash != send.Hash {
		v.violate("harness:not-inbox-head", fmt.Sprintf("inbox head is %v, expected the send", head))
		return v
	}
	before := contractState(P, c.Addr)
	res := safeAutoReceive(P, head)
	v.Gens++
	v.Steps++
	switch {
	case res.Panic != nil:
		v.violate("panic:"+res.site(), fmt.Sprintf("%s\n%s", res.describe(), trimStack(res.Stack)))
		return v
	case res.Err != nil:
		v.violate("internal-error", res.describe())
		return v
	case res.failed():
		v.violate("no-transaction", res.describe())
		return v
	}
	blk := res.Exec.Transaction.Block
	if blk.BlockType != nom.BlockTypeContractReceive || blk.FromBlockHash != send.Hash || blk.Address != c.Addr {
		v.violate("wrong-receive-block", fmt.Sprintf("generated block type %d from %v of %v", blk.BlockType, blk.FromBlockHash, blk.Address))
		return v
	}
	status := common.BytesToUint64(blk.Data)
	if res.Exec.ReturnedError == nil {
		v.Outcome = "applied"
		if status != 1 {
			v.violate("status-mismatch", fmt.Sprintf("method succeeded but the receive block records status %d", status))
		}
	} else {
		v.Outcome = "refunded"
		if status != 2 {
			v.violate("status-mismatch", fmt.Sprintf("method failed (%v) but the receive block records status %d", res.Exec.ReturnedError, status))
		}
		// the only descendant is a send of exactly (amount, token) back to the sender; amount 0 => none
		ds := blk.DescendantBlocks
		if send.Amount.Sign() == 0 {
			if len(ds) != 0 {
				v.violate("refund-unexpected-descendant", fmt.Sprintf("failed call with amount 0 has %d descendant blocks", len(ds)))
			}
		} else if len(ds) != 1 {
			v.violate("refund-descendant-count", fmt.Sprintf("failed call (%v) with amount %v %v has %d descendant blocks, want exactly one refund", res.Exec.ReturnedError, send.Amount, send.TokenStandard, len(ds)))
		} else {
			d := ds[0]
			if d.BlockType != nom.BlockTypeContractSend || d.Address != c.Addr || d.ToAddress != send.Address {
				v.violate("refund-wrong-recipient", fmt.Sprintf("refund block type %d from %v to %v, sender was %v", d.BlockType, d.Address, d.ToAddress, send.Address))
			} else if d.Amount.Cmp(send.Amount) != 0 || d.TokenStandard != send.TokenStandard {
				v.violate("refund-amount-mismatch", fmt.Sprintf("failed call (%v) sent %v %v, refund is %v %v", res.Exec.ReturnedError, send.Amount, send.TokenStandard, d.Amount, d.TokenStandard))
			}
		}
	}
	if ierr := insertTx(P, res.Exec.Transaction); ierr != nil {
		v.violate("receive-not-insertable", fmt.Sprintf("the generated receive block is refused by the producer's own chain: %v", ierr))
		return v
	}
	if v.Outcome == "refunded" {
		if after := contractState(P, c.Addr); after != before {
			v.violate("refund-state-changed", fmt.Sprintf("failed call (%v) left the contract's storage or balances changed", res.Exec.ReturnedError))
		}
	}
	if v.Key != "" {
		return v
	}
	// Once per method and process, when the receive block carries descendants: before anything confirms it, a momentum of
	// a pillar that has not seen the pooled blocks goes by (an empty momentum received from a peer). The node re-derives
	// its pool; whatever it keeps or lets go of, the inbox must still be worked off afterwards.
	if len(blk.DescendantBlocks) > 0 && !foreignDone[c.Name+"."+id.Method] {
		foreignDone[c.Name+"."+id.Method] = true
		if err := P.ProduceForeignEmptyMomentum(0); err != nil {
			v.violate("harness:foreign-momentum-refused", fmt.Sprintf("the elected pillar's empty momentum is refused: %v", err))
			return v
		}
		v.Steps++
		foreignMomentums++
	}
	// the probe is queued behind the call; the next momentum confirms the receive and the probe, then the producer works
	// off every inbox (the probe, and whatever the receive sent to other contracts)
	probe, err := P.Submit(probeCall(c, regimes[env.Regime]))
	if err != nil {
		v.violate("harness:probe-refused", fmt.Sprintf("probe call refused at send time: %v", err))
		return v
	}
	if c.Name == "spork" {
		types.ImplementedSporksMap[probe.Hash] = true
	}
	probeReceived := false
	for round := 0; round < 2; round++ {
		rs, err := safeStep(P)
		v.Steps++
		if err != nil {
			v.violate("producer-step-failed", err.Error())
			return v
		}
		for _, r := range rs {
			v.Gens++
			if r.Send.Hash == probe.Hash && r.Inserted {
				probeReceived = true
			}
			if !r.failed() && r.Inserted && r.Exec != nil && r.Exec.ReturnedError != nil && r.Exec.Transaction != nil && r.Send.Hash != probe.Hash &&
				types.IsEmbeddedAddress(r.Send.ToAddress) && r.Send.Amount.Sign() > 0 {
				// a later entry (typically a call one contract made to another while executing the call under test) failed in
				// the callee: it is an accepted send to an embedded contract like any other, so its amount must go back to
				// its sender - whoever that is - in one descendant block
				ds := r.Exec.Transaction.Block.DescendantBlocks
				ok := len(ds) == 1 && ds[0].BlockType == nom.BlockTypeContractSend && ds[0].ToAddress == r.Send.Address &&
					ds[0].Amount.Cmp(r.Send.Amount) == 0 && ds[0].TokenStandard == r.Send.TokenStandard
				if !ok {
					to := contractNameOf(r.Send.ToAddress)
					v.violate("downstream:"+to+":failed-call-not-refunded", fmt.Sprintf("after the call, the %s contract received send %v from %v (amount %v %v, data %x); the method failed (%v) and the receive block has %d descendant blocks, none of which returns exactly that amount to the sender",
						to, r.Send.Hash, r.Send.Address, r.Send.Amount, r.Send.TokenStandard, r.Send.Data, r.Exec.ReturnedError, len(ds)))
					return v
				}
			}
			if r.failed() || !r.Inserted {
				to := contractNameOf(r.Send.ToAddress)
				what := fmt.Sprintf("after the call, the producer cannot process the next entry of the %s inbox (send %v from %v, data %x): %s insert=%v", to, r.Send.Hash, r.Send.Address, r.Send.Data, r.describe(), r.InsErr)
				if r.Panic != nil {
					what += "\n" + trimStack(r.Stack)
				}
				oc := "internal-error"
				if r.Panic != nil {
					oc = "panic:" + r.site()
				} else if r.InsErr != nil {
					oc = "receive-not-insertable"
				}
				v.violate("downstream:"+to+":"+oc, what)
				return v
			}
		}
		if round == 0 && !probeReceived {
			v.violate("inbox-wedged", "a well-formed probe call sent after the call was not received within one producer step")
			return v
		}
	}
	// the follower replays everything: ApplyBlock of the receive (and of the later receives) must agree
	if msg := pr.syncFollower(); msg != "" {
		v.violate("follower-disagrees", msg)
		return v
	}
	v.Steps++
	return v
}

// foreignDone: methods for which the foreign-momentum variant has been executed in this process
var foreignDone = map[string]bool{}
var foreignMomentums int

func contractNameOf(a types.Address) string {
	for _, c := range contracts {
		if c.Addr == a {
			return c.Name
		}
	}
	return a.String()
}

func trimStack(s string) string {
	lines := bytes.Split([]byte(s), []byte("\n"))
	var out [][]byte
	keep := false
	for _, l := range lines {
		if bytes.HasPrefix(l, []byte("panic(")) {
			keep = true
		}
		if keep {
			out = append(out, l)
		}
		if len(out) >= 16 {
			break
		}
	}
	return string(bytes.Join(out, []byte("\n")))
}

func report(r *xs.Result, id *caseID, v *verdict) {
	if v.Key == "" {
		return
	}
	key := fmt.Sprintf("C09:%s.%s:%s", id.Contract, id.Method, v.Key)
	r.Violate(key, fmt.Sprintf("regime %s, base state %q: %s\n=> %s", regimes[id.Regime].Name, id.Base, id.String(), v.What), id)
}
