package c09

import (
	"crypto/sha256"
	"encoding/base64"
	"math"
	"math/big"
	"strings"

	"github.com/ethereum/go-ethereum/crypto/secp256k1"

	g "github.com/zenon-network/go-zenon/chain/genesis/mock"
	"github.com/zenon-network/go-zenon/common/crypto"
	"github.com/zenon-network/go-zenon/common/types"
	"github.com/zenon-network/go-zenon/vm/abi"
	"github.com/zenon-network/go-zenon/vm/constants"
	"github.com/zenon-network/go-zenon/vm/embedded/definition"
	"github.com/zenon-network/go-zenon/vm/embedded/implementation"
)

// val is one element of an argument domain. F, when set, computes the value from the other (already resolved)
// arguments of the call (signatures over the call's own parameters).
type val struct {
	L string
	V interface{}
	F func(c *callCtx) interface{}
}

type callCtx struct {
	Env   *stateEnv
	Actor int
	Args  []interface{} // resolved so far (by position); derived values are resolved after all plain ones
}

func v(l string, x interface{}) val { return val{L: l, V: x} }

var (
	p64      = new(big.Int).Lsh(big.NewInt(1), 64)
	p255m1   = new(big.Int).Sub(new(big.Int).Lsh(big.NewInt(1), 255), big.NewInt(1))
	p256m1   = new(big.Int).Sub(new(big.Int).Lsh(big.NewInt(1), 256), big.NewInt(1))
	unknownH = types.HexToHashPanic("c09c09c09c09c09c09c09c09c09c09c09c09c09c09c09c09c09c09c09c09c09c")
	unknownZ = types.NewZenonTokenStandard([]byte("c09 unknown token"))
	genesisT = int64(g.EmbeddedGenesis.GenesisTimestampSec)
)

var (
	noSuchEmbedded = func() types.Address {
		var a types.Address
		a[0] = types.ContractAddrByte
		a[1], a[2] = 0xc0, 0x09
		return a
	}()
	weirdPrefix = func() types.Address {
		var a types.Address
		for i := range a {
			a[i] = 0xff
		}
		return a
	}()
)

func rep(s string, n int) string { return strings.Repeat(s, n) }

func b64(b []byte) string { return base64.StdEncoding.EncodeToString(b) }

// a second secp256k1 key (deterministic) for key-change calls
var (
	key2Priv = sha256.Sum256([]byte("c09 second tss key"))
	key2Pub  = func() []byte {
		x, y := secp256k1.S256().ScalarBaseMult(key2Priv[:])
		return secp256k1.CompressPubkey(x, y)
	}()
)

func signWith(priv []byte, hash []byte) string {
	sig, err := secp256k1.Sign(hash, priv)
	must(err)
	return b64(sig)
}

func uints(kind string, reasonable uint64, extra ...uint64) []val {
	var max uint64
	mk := func(x uint64) interface{} {
		switch kind {
		case "uint8":
			return uint8(x)
		case "uint16":
			return uint16(x)
		case "uint32":
			return uint32(x)
		}
		return x
	}
	switch kind {
	case "uint8":
		max = math.MaxUint8
	case "uint16":
		max = math.MaxUint16
	case "uint32":
		max = math.MaxUint32
	default:
		max = math.MaxUint64
	}
	out := []val{v("ok", mk(reasonable)), v("0", mk(0)), v("max", mk(max)), v("1", mk(1))}
	for _, e := range extra {
		out = append(out, v("x"+big.NewInt(0).SetUint64(e).String(), mk(e)))
	}
	return dedupe(out)
}

func dedupe(in []val) []val {
	var out []val
	for _, x := range in {
		dup := false
		for _, y := range out {
			if x.F == nil && y.F == nil && sameValue(x.V, y.V) {
				dup = true
			}
		}
		if !dup {
			out = append(out, x)
		}
	}
	return out
}

func sameValue(a, b interface{}) bool {
	switch x := a.(type) {
	case *big.Int:
		y, ok := b.(*big.Int)
		return ok && x.Cmp(y) == 0
	case []byte:
		y, ok := b.([]byte)
		return ok && string(x) == string(y)
	case []types.Address, []string, []uint32, []*big.Int:
		return false
	}
	return a == b
}

func u256(reasonable *big.Int) []val {
	return dedupe([]val{v("ok", reasonable), v("0", big.NewInt(0)), v("2^256-1", p256m1), v("1", big.NewInt(1)), v("2^64", p64), v("2^255-1", p255m1),
		v("2^255", new(big.Int).Lsh(big.NewInt(1), 255))}) // the first value that no longer fits an account-block amount
}

func strs(valid string, maxLen int, maxFill string, bad string, more ...val) []val {
	out := []val{v("ok", valid)}
	out = append(out, more...)
	out = append(out, v("empty", ""), v("max+1", rep(maxFill, maxLen+1)), v("max", rep(maxFill, maxLen)), v("1char", maxFill), v("badchars", bad))
	return dedupe(out)
}

func hexAddrs(known ...string) []val {
	var out []val
	for i, k := range known {
		out = append(out, v([]string{"ok", "ok2", "ok3"}[i], k))
	}
	out = append(out, v("unknown", "0x00000000000000000000000000000000c09c09c0"), v("empty", ""), v("upper", strings.ToUpper(known[0][2:])), v("43chars", known[0]+"0"),
		v("1char", "a"), v("badchars", "0xZZZZb2315678afecb367f032d93f642f64180aa3"))
	return out
}

func hashes(env *stateEnv, contract string, extra ...types.Hash) []val {
	var out []val
	for i, h := range env.IDs[contract] {
		if i < 3 {
			out = append(out, v([]string{"entry", "entry2", "entry3"}[i], h))
		}
	}
	for _, h := range extra {
		if !h.IsZero() {
			out = append(out, v("entry", h))
		}
	}
	out = append(out, v("unknown", unknownH), v("zero", types.ZeroHash))
	return dedupe(out)
}

func addrs(c *contractDef, actorIdx int) []val {
	self := actors[actorIdx].Key.Address
	other := actors[aStranger].Key.Address
	if actorIdx == aStranger {
		other = actors[aOwner].Key.Address
	}
	return []val{v("user", other), v("embedded", types.AcceleratorContract), v("zero", types.ZeroAddress), v("self", self), v("this-contract", c.Addr),
		v("no-such-embedded", noSuchEmbedded), v("prefix-0xff", weirdPrefix)}
}

func ztss(env *stateEnv) []val {
	out := []val{v("znn", znn)}
	if env.HasEntries {
		out = append(out, v("custom", env.Custom))
	}
	out = append(out, v("unknown", unknownZ), v("zero", types.ZeroTokenStandard), v("qsr", qsr))
	if env.HasEntries {
		out = append(out, v("locked", env.Locked))
		if env.BridgeTok != types.ZeroTokenStandard {
			out = append(out, v("bridge-owned", env.BridgeTok))
		}
	}
	return out
}

func jsons() []val {
	return []val{v("ok", "{}"), v("empty", ""), v("object", `{"APR": 15, "LockingPeriod": 100}`), v("scalar", "1"), v("long", `"`+rep("m", 2000)+`"`), v("notjson", "{")}
}

func swapSig(kind int, priv []byte, pub string) func(c *callCtx) interface{} {
	return func(c *callCtx) interface{} {
		addr := actors[c.Actor].Key.Address
		var s string
		var err error
		if kind == implementation.SwapRetrieveAssets {
			s, err = implementation.SignRetrieveAssetsMessage(addr, priv, pub)
		} else {
			s, err = implementation.SignLegacyPillarMessage(addr, priv, pub)
		}
		must(err)
		return s
	}
}

// domainFor returns the full ordered domain of one argument (most relevant values first: tiers and caps cut from the end).
func domainFor(c *contractDef, m *abi.Method, ai int, env *stateEnv, actorIdx int) []val {
	arg := m.Inputs[ai]
	ty := arg.Type.String()
	name := arg.Name
	key := c.Name + "." + m.Name + "." + name
	switch ty {
	case "bool":
		if name == "owned" {
			return []val{v("false", false), v("true", true)}
		}
		return []val{v("true", true), v("false", false)}
	case "address":
		return addrs(c, actorIdx)
	case "tokenStandard":
		return ztss(env)
	case "hash":
		switch {
		case c.Name == "accelerator":
			h := hashes(env, "accelerator")
			if m.Name == definition.AddPhaseMethodName && len(h) >= 5 {
				// a phase can be added to the project that has none yet (stranger's)
				h[0], h[2] = h[2], h[0]
			}
			return h
		case c.Name == "bridge" && name == "transactionHash":
			if m.Name == definition.UnwrapTokenMethodName {
				return dedupe([]val{v("new", types.HexToHashPanic("00000000000000000000000000000000000000000000000000000000000c0902")), v("entry", env.UnwrapTx), v("zero", types.ZeroHash)})
			}
			return hashes(env, "none", env.UnwrapTx)
		}
		return hashes(env, c.Name)
	case "uint8":
		switch name {
		case "vote":
			return uints(ty, 0, 2)
		case "hashType":
			return uints(ty, 0)
		case "keyMaxSize":
			return uints(ty, 32)
		case "decimals":
			return uints(ty, 2, 18, 19)
		}
		return uints(ty, 50, 100, 101)
	case "uint32":
		switch name {
		case "networkClass":
			return uints(ty, uint64(netClass))
		case "chainId":
			return uints(ty, uint64(netChain))
		case "logIndex":
			if m.Name == definition.UnwrapTokenMethodName {
				return uints(ty, 9, uint64(env.UnwrapLog))
			}
			return uints(ty, uint64(env.UnwrapLog))
		case "feePercentage":
			return uints(ty, 15, uint64(constants.MaximumFee), uint64(constants.MaximumFee)+1)
		case "redeemDelay":
			return uints(ty, 2)
		}
		return uints(ty, 3)
	case "uint64":
		return uints(ty, 6)
	case "int64":
		day := int64(24 * 3600)
		if name == "expirationTime" {
			return []val{v("ok", genesisT+365*day), v("0", int64(0)), v("max", int64(math.MaxInt64)), v("past", genesisT+1), v("-1", int64(-1)), v("1", int64(1))}
		}
		return []val{v("ok", constants.StakeTimeMinSec), v("maxvalid+unit", constants.StakeTimeMaxSec+constants.StakeTimeUnitSec), v("max", int64(math.MaxInt64)), v("0", int64(0)),
			v("maxvalid", constants.StakeTimeMaxSec), v("-1", int64(-1)),
			v("1", int64(1)), v("not-multiple", constants.StakeTimeMinSec+60), v("min", int64(math.MinInt64))}
	case "uint256":
		switch name {
		case "znnFundsNeeded":
			return append(u256(big8(10)), v("maxvalid", new(big.Int).Set(constants.ProjectZnnMaximumFunds)))
		case "qsrFundsNeeded":
			return append(u256(big8(100)), v("maxvalid", new(big.Int).Set(constants.ProjectQsrMaximumFunds)))
		case "totalSupply", "maxSupply":
			return u256(big.NewInt(100000))
		}
		return u256(big.NewInt(1000))
	case "bytes":
		lock := crypto.Hash(htlcPreimage)
		s256 := sha256.Sum256(htlcPreimage)
		if name == "preimage" {
			return []val{v("ok", htlcPreimage), v("empty", []byte{}), v("wrong32", lock), v("1byte", []byte{7}), v("long", []byte(rep("p", 300)))}
		}
		return []val{v("ok", lock), v("empty", []byte{}), v("33bytes", append(append([]byte{}, lock...), 1)), v("sha256", s256[:]), v("1byte", []byte{7}), v("31bytes", lock[:31])}
	case "address[]":
		u := []types.Address{g.User1.Address, g.User2.Address, g.User3.Address, g.User4.Address, g.User5.Address}
		return []val{v("ok", u), v("empty", []types.Address{}), v("with-zero", []types.Address{u[0], types.ZeroAddress, u[1]}), v("min", u[:minGuardians]), v("one", u[:1]),
			v("duplicates", []types.Address{u[0], u[0], u[0]}), v("with-embedded", []types.Address{u[0], types.BridgeContract, u[1]})}
	case "string[]":
		return []val{v("ok", []string{znn.String(), env.Custom.String()}), v("empty", []string{}), v("one", []string{qsr.String()}), v("three", []string{znn.String(), qsr.String(), unknownZ.String()}),
			v("duplicate", []string{znn.String(), znn.String()}), v("notzts", []string{"zts-nope", "x"})}
	case "uint32[]":
		return []val{v("ok", []uint32{5000, 5000}), v("empty", []uint32{}), v("one", []uint32{10000}), v("three", []uint32{3000, 3000, 4000}),
			v("overflow", []uint32{math.MaxUint32, 10001}), v("badsum", []uint32{1, 2})}
	case "uint256[]":
		return []val{v("ok", []*big.Int{big.NewInt(1000), big.NewInt(10)}), v("empty", []*big.Int{}), v("one", []*big.Int{big.NewInt(1)}), v("three", []*big.Int{big.NewInt(0), p256m1, big.NewInt(1)}),
			v("huge", []*big.Int{p256m1, p255m1})}
	case "string":
		// below
	default:
		panic("no domain for ABI type " + ty + " (" + key + ")")
	}

	// strings
	pillarName := g.Pillar1Name
	switch {
	case c.Name == "pillar" && name == "name":
		alt := "c09-new-pillar"
		if m.Name == definition.RegisterMethodName || m.Name == definition.LegacyRegisterMethodName {
			return strs(alt, constants.PillarNameLengthMax, "a", "bad name!", v("existing", pillarName))
		}
		return strs(pillarName, constants.PillarNameLengthMax, "a", "bad name!", v("unregistered", alt))
	case name == "name" && (m.Name == definition.VoteByNameMethodName):
		return strs(pillarName, constants.PillarNameLengthMax, "a", "bad name!", v("other-pillar", g.Pillar2Name))
	case c.Name == "accelerator" && name == "name":
		return strs("c09 name", constants.ProjectNameLengthMax, "n", "\x00\xff\xfe")
	case c.Name == "accelerator" && name == "description":
		return strs("c09 description", constants.ProjectDescriptionLengthMax, "d", "\x00\xff\xfe")
	case name == "url":
		longest := "https://" + rep("a", 60) + "." + rep("b", 6) + rep("/", 100)
		return []val{v("ok", "zenon.network"), v("empty", ""), v("max+1", longest+"/"), v("max", longest), v("1char", "a"), v("badchars", "zenon network")}
	case c.Name == "spork" && name == "name":
		return strs("c09-spork", constants.SporkNameMaxLength, "s", "\x00\xff\xfe\x00\x01", v("min-1", "spor"))
	case c.Name == "spork" && name == "description":
		return strs("c09 spork description", constants.SporkDescriptionMaxLength, "d", "\x00\xff\xfe")
	case name == "tokenName":
		return strs("c09-new-token", constants.TokenNameLengthMax, "t", "bad name!")
	case name == "tokenSymbol":
		return strs("NEWT", constants.TokenSymbolLengthMax, "T", "lower", v("reserved", "ZNN"))
	case name == "tokenDomain":
		longest := rep("a", 63) + "." + rep("b", 61) + ".cc"
		return []val{v("ok", "zenon.network"), v("empty", ""), v("max+1", longest+"c"), v("max", longest), v("1char", "a"), v("badchars", "no domain")}
	case c.Name == "swap" || (c.Name == "pillar" && (name == "publicKey" || name == "signature")):
		kind := implementation.SwapRetrieveAssets
		if c.Name == "pillar" {
			kind = implementation.SwapRetrieveLegacyPillar
		}
		if name == "publicKey" {
			return []val{v("genesis-key", g.Secp1PubKeyB64), v("other-key", g.Secp2PubKeyB64), v("empty", ""), v("64bytes", b64(make([]byte, 64))), v("zero65", b64(make([]byte, 65))),
				v("1char", "a"), v("notb64", "!!!!")}
		}
		return []val{
			{L: "valid-for-genesis-key", F: swapSig(kind, g.Secp1PrvKey, g.Secp1PubKeyB64)},
			{L: "valid-for-other-key", F: swapSig(kind, g.Secp2PrvKey, g.Secp2PubKeyB64)},
			v("empty", ""), v("zero65", b64(make([]byte, 65))), v("64bytes", b64(make([]byte, 64))), v("1char", "a"), v("notb64", "!!!!")}
	case name == "pubKey":
		bad := append([]byte{2}, []byte(rep("\xff", 32))...)
		return []val{v("ok", tssPubKey), v("not-on-curve", b64(bad)), v("other-key", b64(key2Pub)), v("zero33", b64(make([]byte, 33))), v("empty", ""), v("32bytes", b64(make([]byte, 32))),
			v("uncompressed-prefix", b64(append([]byte{4}, key2Pub[1:]...))), v("1char", "a"), v("notb64", "!!!!")}
	case name == "oldPubKeySignature" || name == "newPubKeySignature":
		priv := key2Priv[:]
		if name == "oldPubKeySignature" {
			raw, _ := base64.StdEncoding.DecodeString(tssPrivKey)
			priv = raw
		}
		return []val{v("empty", ""),
			{L: "valid-nonce0", F: func(c *callCtx) interface{} {
				pk, _ := c.Args[0].(string)
				msg, err := implementation.GetChangePubKeyMessage(definition.ChangeTssECDSAPubKeyMethodName, definition.NoMClass, g.EmbeddedGenesis.ChainIdentifier, 0, pk)
				if err != nil || len(pk) == 0 {
					return "unsignable"
				}
				if raw, err := base64.StdEncoding.DecodeString(pk); err != nil || len(raw) != 33 {
					return "unsignable"
				}
				return signWith(priv, msg)
			}},
			v("zero65", b64(make([]byte, 65))), v("1char", "a"), v("notb64", "!!!!")}
	case c.Name == "bridge" && m.Name == definition.HaltMethodName:
		return []val{
			{L: "valid-nonce0", F: func(c *callCtx) interface{} {
				msg, err := implementation.GetBasicMethodMessage(definition.HaltMethodName, 0, definition.NoMClass, g.EmbeddedGenesis.ChainIdentifier)
				must(err)
				return tssSign(msg)
			}},
			v("empty", ""), v("zero65", b64(make([]byte, 65))), v("1char", "a"), v("notb64", "!!!!")}
	case c.Name == "bridge" && m.Name == definition.UpdateWrapRequestMethodName:
		return []val{
			{L: "valid-for-entry", F: func(c *callCtx) interface{} {
				if c.Env.WrapSig == "" {
					return "no-wrap-request"
				}
				return c.Env.WrapSig
			}},
			v("empty", ""), v("zero65", b64(make([]byte, 65))), v("1char", "a"), v("notb64", "!!!!")}
	case c.Name == "bridge" && m.Name == definition.UnwrapTokenMethodName && name == "signature":
		return []val{
			{L: "valid-for-params", F: func(c *callCtx) interface{} {
				a := c.Args
				return unwrapSignature(a[0].(uint32), a[1].(uint32), a[2].(types.Hash), a[3].(uint32), a[4].(types.Address), a[5].(string), a[6].(*big.Int))
			}},
			v("empty", ""), v("zero65", b64(make([]byte, 65))), v("1char", "a"), v("notb64", "!!!!")}
	case name == "tokenAddress":
		return hexAddrs(tokAddrZnn, tokAddrOwn)
	case name == "toAddress":
		return hexAddrs(evmDest)
	case name == "contractAddress":
		return hexAddrs(netAddr)
	case name == "metadata":
		return jsons()
	case c.Name == "bridge" && name == "name":
		return strs("Ethereum", 32, "e", "\x00\xff\xfe", v("min-1", "ab"))
	}
	panic("no string domain for " + key)
}

// ---------------------------------------------------------------------------------------------------------------------
// amount and token of the send block

// requiredAmount: what the method's send-time validation asks for (nil: no particular amount; 10 ZNN is used).
func requiredAmount(c *contractDef, method string) (*big.Int, types.ZenonTokenStandard) {
	switch c.Name + "." + method {
	case "stake.Stake":
		return new(big.Int).Set(constants.StakeMinAmount), znn
	case "plasma.Fuse":
		return new(big.Int).Set(constants.FuseMinAmount), qsr
	case "pillar.Register", "pillar.RegisterLegacy":
		return new(big.Int).Set(constants.PillarStakeAmount), znn
	case "sentinel.Register":
		return new(big.Int).Set(constants.SentinelZnnRegisterAmount), znn
	case "token.IssueToken":
		return new(big.Int).Set(constants.TokenIssueAmount), znn
	case "accelerator.CreateProject":
		return new(big.Int).Set(constants.ProjectCreationAmount), znn
	case "pillar.DepositQsr", "sentinel.DepositQsr":
		return big8(10), qsr
	case "bridge.WrapToken":
		return big.NewInt(500), znn
	case "liquidity.LiquidityStake":
		return big.NewInt(5000), znn
	}
	return big8(10), znn
}

type amountSel struct {
	L string
}

var amountSels = []string{"required", "zero", "all", "one"}
var tokenSels = []string{"znn", "qsr", "custom", "none", "locked", "bridge-owned"}

// tokenSelsFor: the token selectors of a method, most relevant first (the quick tier takes the first two).
func tokenSelsFor(c *contractDef, method string) []string {
	if c.Name == "bridge" && method == "WrapToken" {
		// tokens with a pair on the base state's network: ZNN (not owned), the foreign token flagged Owned, the bridge's own
		return []string{"znn", "locked", "bridge-owned-full-fee", "bridge-owned", "qsr", "custom", "none"}
	}
	if _, zts := requiredAmount(c, method); zts == qsr {
		return []string{"qsr", "znn", "custom", "none", "locked", "bridge-owned"}
	}
	return tokenSels
}

// nTokensFor: how many of the method's token selectors a tier with a cut of n uses (WrapToken: the four tokens with a pair)
func nTokensFor(c *contractDef, method string, n int) int {
	k := len(tokenSelsFor(c, method))
	if c.Name == "bridge" && method == "WrapToken" && n < 4 {
		n = 4
	}
	if n > k {
		n = k
	}
	return n
}
