package c05

import (
	"crypto/ed25519"
	"fmt"
	"strings"
	"time"

	g "github.com/zenon-network/go-zenon/chain/genesis/mock"
	"github.com/zenon-network/go-zenon/chain/nom"
	"github.com/zenon-network/go-zenon/common/types"
	"github.com/zenon-network/go-zenon/wallet"

	"verifmc/internal/ops"
	"verifmc/internal/vnode"
	"verifmc/internal/xs"
)

// ---------------------------------------------------------------------------------------------------------------------
// situations

type situation struct {
	Name string
	Ops  []ops.Op // history before the candidate momentum
	Pool []ops.Op // account blocks the candidate momentum confirms
	Skip int      // slots skipped by the candidate momentum
}

func situations(cf cfgSpec, thorough bool) []situation {
	n := cf.NodeCount
	pool := []ops.Op{{K: "T", A: 0, B: 1, V: 5}, {K: "T", A: 2, B: 3, T: 1, V: 7}}
	out := []situation{
		{"height-1", nil, pool, 0},
		// the pool also holds the producer's auto-receive of a contract call confirmed by the previous momentum
		{"height-2", []ops.Op{{K: "Call", S: "stake", A: 3, V: 10}, M}, pool, 0},
		{"skipping-a-slot", []ops.Op{M}, pool, 1},
		{"after-a-skipped-slot", []ops.Op{M, {K: "M", V: 1}}, pool, 0},
	}
	if thorough && n <= 4 {
		// every slot position of the first two ticks
		for k := 3; k <= 2*n+1; k++ {
			out = append(out, situation{fmt.Sprintf("height-%d", k), rep(M, k-1), pool, 0})
		}
	}
	if n <= 4 || thorough {
		out = append(out,
			situation{"tick-boundary", rep(M, n-1), pool, 0},
			situation{"last-slot-of-tick", rep(M, n-2), pool, 0},
			situation{"after-delegation-change", cat([]ops.Op{{K: "Call", S: "delegate", A: 0, B: 2}, M}, rep(M, 3*n)), pool, 0},
		)
	}
	return out
}

// ---------------------------------------------------------------------------------------------------------------------
// mutations

type mmut struct {
	Field string `json:"field"`
	Val   string `json:"val"`
	f     func(d *nom.DetailedMomentum)
}

func (m mmut) String() string { return m.Field + "=" + m.Val }

var mmodes = []string{"untouched", "rehashed+resigned-by-original-producer", "rehashed+resigned-by-another-registered-pillar", "rehashed+resigned-by-pillar-elected-for-its-slot"}

func keyOf(a types.Address) *wallet.KeyPair {
	for _, k := range g.AllKeyPairs {
		if k.Address == a {
			return k
		}
	}
	return nil
}

func flip(h types.Hash) types.Hash { h[11] ^= 0x20; return h }

type acceptCtx struct {
	sit      situation
	cf       cfgSpec
	gv       *genesisVariant
	prefix   []*nom.DetailedMomentum
	valid    *nom.DetailedMomentum
	frontier *nom.Momentum // of the prefix
	grand    types.Hash    // predecessor of the frontier (zero at height 1)
	rc       *refChain     // reference view of the prefix
	orig     *wallet.KeyPair
	other    *wallet.KeyPair // another registered pillar
	foreignH *types.AccountHeader
	extraBlk *nom.AccountBlock
}

func (ac *acceptCtx) domain() []mmut {
	var out []mmut
	add := func(field, val string, f func(d *nom.DetailedMomentum)) { out = append(out, mmut{field, val, f}) }
	v := ac.valid.Momentum
	for _, x := range []uint64{0, 2} {
		x := x
		add("Version", fmt.Sprint(x), func(d *nom.DetailedMomentum) { d.Momentum.Version = x })
	}
	for _, x := range []uint64{0, 1, 101} {
		x := x
		add("ChainIdentifier", fmt.Sprint(x), func(d *nom.DetailedMomentum) { d.Momentum.ChainIdentifier = x })
	}
	add("Hash", "zero", func(d *nom.DetailedMomentum) { d.Momentum.Hash = types.ZeroHash })
	add("Hash", "bit-flip", func(d *nom.DetailedMomentum) { d.Momentum.Hash = flip(d.Momentum.Hash) })
	add("PreviousHash", "zero", func(d *nom.DetailedMomentum) { d.Momentum.PreviousHash = types.ZeroHash })
	add("PreviousHash", "bit-flip", func(d *nom.DetailedMomentum) { d.Momentum.PreviousHash = flip(d.Momentum.PreviousHash) })
	if !ac.grand.IsZero() {
		add("PreviousHash", "grandparent", func(d *nom.DetailedMomentum) { d.Momentum.PreviousHash = ac.grand })
	}
	add("Height", "-1", func(d *nom.DetailedMomentum) { d.Momentum.Height-- })
	add("Height", "+1", func(d *nom.DetailedMomentum) { d.Momentum.Height++ })
	add("Height", "0", func(d *nom.DetailedMomentum) { d.Momentum.Height = 0 })
	// timestamps, relative to the valid one (V) and to the frontier's (P)
	P := ac.frontier.TimestampUnix
	tick := uint64(ac.cf.NodeCount * slotSeconds)
	for _, x := range []struct {
		n string
		v uint64
	}{{"V-10s", v.TimestampUnix - 10}, {"same-as-previous", P}, {"previous-10s", P - 10}, {"V+1s-off-slot", v.TimestampUnix + 1}, {"V+9s-off-slot", v.TimestampUnix + 9},
		{"V+10s-next-slot", v.TimestampUnix + 10}, {"V+20s", v.TimestampUnix + 20}, {"V+1tick", v.TimestampUnix + tick}, {"V+2ticks", v.TimestampUnix + 2*tick},
		{"year-2100", 4102444800}, {"0", 0}} {
		x := x
		if x.v == v.TimestampUnix {
			continue
		}
		add("Timestamp", x.n, func(d *nom.DetailedMomentum) { d.Momentum.TimestampUnix = x.v; d.Momentum.Timestamp = nil })
	}
	add("Data", "1-byte", func(d *nom.DetailedMomentum) { d.Momentum.Data = []byte{1} })
	// content
	if len(v.Content) >= 2 {
		add("Content", "first-header-dropped", func(d *nom.DetailedMomentum) { d.Momentum.Content = d.Momentum.Content[1:] })
		add("Content", "all-dropped", func(d *nom.DetailedMomentum) { d.Momentum.Content = nil })
		add("Content", "first-header-duplicated", func(d *nom.DetailedMomentum) {
			d.Momentum.Content = append(nom.MomentumContent{d.Momentum.Content[0]}, d.Momentum.Content...)
		})
		add("Content", "reversed", func(d *nom.DetailedMomentum) {
			c := d.Momentum.Content
			for i, j := 0, len(c)-1; i < j; i, j = i+1, j-1 {
				c[i], c[j] = c[j], c[i]
			}
		})
		add("Content", "first-header-replaced-by-another-account's", func(d *nom.DetailedMomentum) { d.Momentum.Content[0] = ac.foreignH })
		add("Content", "first-header-hash-flipped", func(d *nom.DetailedMomentum) {
			h := *d.Momentum.Content[0]
			h.Hash = flip(h.Hash)
			d.Momentum.Content[0] = &h
		})
	}
	add("Content", "unknown-header-added", func(d *nom.DetailedMomentum) {
		d.Momentum.Content = append(d.Momentum.Content, &types.AccountHeader{Address: g.User9.Address, HashHeight: types.HashHeight{Hash: flip(types.ZeroHash), Height: 1}})
	})
	add("ChangesHash", "zero", func(d *nom.DetailedMomentum) { d.Momentum.ChangesHash = types.ZeroHash })
	add("ChangesHash", "bit-flip", func(d *nom.DetailedMomentum) { d.Momentum.ChangesHash = flip(d.Momentum.ChangesHash) })
	add("PublicKey", "other-registered-pillar's", func(d *nom.DetailedMomentum) { d.Momentum.PublicKey = append([]byte{}, ac.other.Public...) })
	add("PublicKey", "user's", func(d *nom.DetailedMomentum) { d.Momentum.PublicKey = append([]byte{}, g.User1.Public...) })
	add("PublicKey", "unregistered-pillar-key's", func(d *nom.DetailedMomentum) { d.Momentum.PublicKey = append([]byte{}, g.Pillar8.Public...) })
	add("PublicKey", "nil", func(d *nom.DetailedMomentum) { d.Momentum.PublicKey = nil })
	add("PublicKey", "31-bytes", func(d *nom.DetailedMomentum) { d.Momentum.PublicKey = append([]byte{}, d.Momentum.PublicKey[:31]...) })
	add("Signature", "bit-flip", func(d *nom.DetailedMomentum) {
		d.Momentum.Signature = append([]byte{}, d.Momentum.Signature...)
		d.Momentum.Signature[17] ^= 8
	})
	add("Signature", "nil", func(d *nom.DetailedMomentum) { d.Momentum.Signature = nil })
	add("Signature", "65-bytes", func(d *nom.DetailedMomentum) { d.Momentum.Signature = append(append([]byte{}, d.Momentum.Signature...), 0) })
	add("Signature", "63-bytes", func(d *nom.DetailedMomentum) { d.Momentum.Signature = append([]byte{}, d.Momentum.Signature[:63]...) })
	add("Signature", "user-key-signs(with-its-public-key)", func(d *nom.DetailedMomentum) {
		d.Momentum.Signature = g.User1.Sign(d.Momentum.Hash[:])
		d.Momentum.PublicKey = append([]byte{}, g.User1.Public...)
	})
	add("Signature", "unregistered-pillar-key-signs(with-its-public-key)", func(d *nom.DetailedMomentum) {
		d.Momentum.Signature = g.Pillar8.Sign(d.Momentum.Hash[:])
		d.Momentum.PublicKey = append([]byte{}, g.Pillar8.Public...)
	})
	// prefetched account-block list
	if len(ac.valid.AccountBlocks) >= 1 {
		add("AccountBlocks", "first-missing", func(d *nom.DetailedMomentum) { d.AccountBlocks = d.AccountBlocks[1:] })
		add("AccountBlocks", "nil", func(d *nom.DetailedMomentum) { d.AccountBlocks = nil })
		add("AccountBlocks", "first-duplicated", func(d *nom.DetailedMomentum) {
			d.AccountBlocks = append([]*nom.AccountBlock{vnode.CloneBlock(d.AccountBlocks[0])}, d.AccountBlocks...)
		})
		add("AccountBlocks", "first-with-bad-signature", func(d *nom.DetailedMomentum) {
			for _, b := range d.AccountBlocks {
				if len(b.Signature) > 0 {
					b.Signature[3] ^= 1
					return
				}
			}
		})
	}
	add("AccountBlocks", "extra-valid-block", func(d *nom.DetailedMomentum) {
		d.AccountBlocks = append(d.AccountBlocks, vnode.CloneBlock(ac.extraBlk))
	})
	return out
}

// build applies the mutation and seals; returns nil when the mode makes no sense for this candidate.
func (ac *acceptCtx) build(m *mmut, mode int) *nom.DetailedMomentum {
	d := vnode.CloneDetailed(ac.valid)
	late := m != nil && m.Field == "Signature"
	if m != nil && !late {
		m.f(d)
	}
	mm := d.Momentum
	if mode > 0 {
		signer := ac.orig
		switch mode {
		case 2:
			signer = ac.other
		case 3:
			el := ac.rc.electedFor(time.Unix(int64(mm.TimestampUnix), 0))
			if el == nil {
				return nil
			}
			signer = keyOf(*el)
			if signer == nil || signer == ac.orig {
				return nil // same as mode 1
			}
		}
		if m == nil || m.Field != "Hash" {
			mm.Hash = mm.ComputeHash()
		}
		if m == nil || m.Field != "PublicKey" {
			mm.PublicKey = append([]byte{}, signer.Public...)
		}
		mm.Signature = signer.Sign(mm.Hash[:])
	}
	if late {
		m.f(d)
	}
	// as decoded off the wire (cached timestamp / producer recomputed)
	return vnode.CloneDetailed(d)
}

// ---------------------------------------------------------------------------------------------------------------------
// predicate of the statement

type verdict struct {
	ok     bool
	clause string
}

func contentEqual(a, b nom.MomentumContent) bool {
	if len(a) != len(b) {
		return false
	}
	for i := range a {
		if *a[i] != *b[i] {
			return false
		}
	}
	return true
}

func (ac *acceptCtx) judge(c *xs.Ctx, d *nom.DetailedMomentum) verdict {
	m := d.Momentum
	if m.Hash != ownMomentumHash(m) {
		return verdict{false, "hash does not commit to the content"}
	}
	if m.PreviousHash != ac.frontier.Hash || m.Height != ac.frontier.Height+1 {
		return verdict{false, "does not directly extend the frontier"}
	}
	if m.TimestampUnix <= ac.frontier.TimestampUnix {
		return verdict{false, "timestamp not strictly later than the frontier's"}
	}
	if int64(m.TimestampUnix) > time.Now().Unix()+10 {
		return verdict{false, "timestamp in the future"}
	}
	if len(m.PublicKey) != ed25519.PublicKeySize || !ed25519.Verify(m.PublicKey, m.Hash[:], m.Signature) {
		return verdict{false, "signature does not verify"}
	}
	el := ac.rc.electedFor(time.Unix(int64(m.TimestampUnix), 0))
	if el == nil || ownAddress(m.PublicKey) != *el {
		return verdict{false, fmt.Sprintf("signed by %v, the pillar elected for the slot of its timestamp is %v", ownAddress(m.PublicKey), el)}
	}
	// the changes hash must be the one of the state changes this content produces on this predecessor
	if contentEqual(m.Content, ac.valid.Momentum.Content) {
		if m.ChangesHash != ac.valid.Momentum.ChangesHash {
			return verdict{false, "changes hash differs from the producer's for the same content"}
		}
	} else {
		ch, err := ac.regenerate(c, d)
		if err != nil {
			return verdict{false, "the producer path cannot generate a momentum with this content: " + err.Error()}
		}
		if ch != m.ChangesHash {
			return verdict{false, "changes hash differs from the one the producer path computes for this content"}
		}
	}
	return verdict{ok: true}
}

// regenerate lets the producer path (Supervisor.GenerateMomentum) compute the changes hash for the candidate's content.
func (ac *acceptCtx) regenerate(c *xs.Ctx, d *nom.DetailedMomentum) (types.Hash, error) {
	n := ac.follower(c, true)
	defer n.Destroy()
	t := vnode.CloneMomentum(d.Momentum)
	t.Hash, t.ChangesHash, t.Signature, t.PublicKey = types.ZeroHash, types.ZeroHash, nil, nil
	t.EnsureCache()
	signer := keyOf(d.Momentum.Producer())
	if signer == nil {
		return types.ZeroHash, fmt.Errorf("no key")
	}
	var blocks []*nom.AccountBlock
	for _, b := range d.AccountBlocks {
		blocks = append(blocks, vnode.CloneBlock(b))
	}
	tx, err := n.Sup.GenerateMomentum(&nom.DetailedMomentum{Momentum: t, AccountBlocks: blocks}, signer.Signer)
	if err != nil {
		return types.ZeroHash, err
	}
	return tx.Momentum.ChangesHash, nil
}

func (ac *acceptCtx) follower(c *xs.Ctx, withPool bool) *vnode.Node {
	n := newNode(c, ac.gv, false)
	feed(n, ac.prefix)
	if withPool {
		for _, b := range ac.valid.AccountBlocks {
			if b.BlockType == nom.BlockTypeContractSend {
				continue
			}
			if err, pan := n.AddAccountBlocks([]*nom.AccountBlock{vnode.CloneBlock(b)}); err != nil || pan != nil {
				panic(fmt.Sprintf("pool block refused: %v %v", err, pan))
			}
		}
	}
	return n
}

// ---------------------------------------------------------------------------------------------------------------------

type acceptCase struct {
	Part      string `json:"part"`
	Cfg       int    `json:"cfg"`
	Genesis   string `json:"genesis"`
	Situation string `json:"situation"`
	Mut       *mmut  `json:"mut,omitempty"`
	Mode      int    `json:"mode"`
	Own       bool   `json:"own,omitempty"` // path C: the node's own pillar is handed an event for a slot it is not elected for
}

func prepare(c *xs.Ctx, cfi int, gv *genesisVariant, sit situation) *acceptCtx {
	cf := cfgs[cfi]
	b, p := produce(c, cf, gv, sit.Ops)
	defer p.Destroy()
	ac := &acceptCtx{sit: sit, cf: cf, gv: gv, prefix: b.chain, rc: b.rc, frontier: p.Frontier()}
	if ac.frontier.Height > 1 {
		ac.grand = ac.frontier.PreviousHash
	}
	// a header of another account's existing block, an unrelated valid block
	fb, err := p.Chain.GetFrontierMomentumStore().GetFrontierAccountBlock(g.User5.Address)
	must(err)
	hd := fb.Header()
	ac.foreignH = &hd
	tx, err := p.Generate(&nom.AccountBlock{BlockType: nom.BlockTypeUserSend, Address: g.Pillar6.Address, ToAddress: g.User1.Address,
		TokenStandard: types.ZnnTokenStandard, Amount: ops.Big(3)})
	must(err)
	ac.extraBlk = vnode.CloneBlock(tx.Block)
	for _, o := range sit.Pool {
		strictOp(p, o)
	}
	strictOp(p, ops.Op{K: "M", V: int64(sit.Skip)})
	ac.valid = p.Detailed(p.Height())
	if ac.valid.Momentum.Height != ac.frontier.Height+1 {
		panic("producer did not extend the frontier")
	}
	ac.orig = keyOf(ac.valid.Momentum.Producer())
	s := b.rc.snaps[ac.frontier.Hash]
	for _, pl := range s.Pillars {
		if pl.Active && pl.Producing != ac.orig.Address && ac.other == nil {
			ac.other = keyOf(pl.Producing)
		}
	}
	if ac.orig == nil || ac.other == nil {
		panic("no keys")
	}
	return ac
}

func runAccept(c *xs.Ctx, r *xs.Result, cfi int, gv *genesisVariant, sit situation, only *acceptCase) {
	ac := prepare(c, cfi, gv, sit)
	cf := cfgs[cfi]
	r.Add("accept_situations", cf.Name+"/"+gv.Name+"/"+sit.Name)
	// shared follower for the pure verification path (Supervisor.ApplyMomentum does not insert)
	fa := ac.follower(c, true)
	defer fa.Destroy()
	var fb *vnode.Node
	used := 0
	defer func() {
		if fb != nil {
			fb.Destroy()
		}
	}()
	dom := ac.domain()
	try := func(m *mmut, mode int) {
		d := ac.build(m, mode)
		if d == nil {
			return
		}
		cs := acceptCase{Part: "accept", Cfg: cfi, Genesis: gv.Name, Situation: sit.Name, Mut: m, Mode: mode}
		name := "unmodified"
		if m != nil {
			name = m.String()
			r.Add("accept_fields", m.Field)
			r.Add("accept_field_values", m.String())
		}
		r.Count("accept_candidates", 1)
		r.Sample(map[string]interface{}{"part": "accept", "genesis": gv.Name, "situation": sit.Name, "mutation": name, "sealing": fmt.Sprint(mode)})
		// path A: Supervisor.ApplyMomentum
		_, errA := fa.Sup.ApplyMomentum(vnode.CloneDetailed(d))
		// path B: ChainBridge.InsertChain on a follower that holds the predecessor
		if fb == nil || used >= 32 || (m != nil && m.Field == "AccountBlocks") {
			if fb != nil {
				fb.Destroy()
			}
			fb = ac.follower(c, false)
			used = 0
		}
		used++
		_, errB, pan := fb.InsertChain([]*nom.DetailedMomentum{vnode.CloneDetailed(d)})
		tip := fb.Frontier()
		acceptedB := errB == nil && pan == nil && tip.Hash == d.Momentum.Hash && tip.Height == ac.frontier.Height+1
		if tip.Hash != ac.frontier.Hash || pan != nil || (m != nil && m.Field == "AccountBlocks") {
			fb.Destroy()
			fb = nil
		}
		if pan != nil {
			r.Count("accept_insertchain_panics", 1)
			r.Add("accept_rejection_reasons", "PANIC in InsertChain")
		}
		for _, e := range []error{errA, errB} {
			if e != nil {
				r.Add("accept_rejection_reasons", normReason(e.Error()))
			}
		}
		if errA == nil {
			r.Count("accept_accepted_by_ApplyMomentum", 1)
		} else {
			r.Count("accept_rejected_by_ApplyMomentum", 1)
		}
		if acceptedB {
			r.Count("accept_accepted_by_InsertChain", 1)
		} else {
			r.Count("accept_rejected_by_InsertChain", 1)
		}
		if errA != nil && !acceptedB {
			return
		}
		if m != nil {
			r.Count("accept_accepted_mutated", 1)
			r.Add("accept_accepted_mutations", name+":"+mmodes[mode])
		}
		v := ac.judge(c, d)
		if v.ok {
			r.Count("accept_accepted_and_predicate_holds", 1)
			return
		}
		via := "ApplyMomentum+InsertChain"
		if errA != nil {
			via = "InsertChain-only"
		} else if !acceptedB {
			via = "ApplyMomentum-only"
		}
		r.Violate(fmt.Sprintf("C05:accept:%s:%s:accepted", name, mmodes[mode]),
			fmt.Sprintf("config %s, genesis %s, situation %s: candidate momentum (%s, %s) was accepted (%s) but the statement's predicate fails: %s",
				cf.Name, gv.Name, sit.Name, name, mmodes[mode], via, v.clause), cs)
	}
	ownPillar := func() {
		// path C: the node's OWN pillar. A pillar acts on producer events that consensus computed earlier; if such an event has
		// gone stale (the plan was made while syncing, or a reorganisation replaced the proof momentum) the pillar is asked to
		// produce in a slot it is not elected for. Whatever it signs must not become the node's frontier.
		pn := newNode(c, gv, true)
		defer pn.Destroy()
		if len(ac.prefix) > 0 {
			if _, err, pan := pn.InsertChain(vnode.CloneBatch(ac.prefix)); err != nil || pan != nil {
				panic(fmt.Sprintf("situation %s: producing node refuses the prefix: %v %v", sit.Name, err, pan))
			}
		}
		for _, o := range sit.Pool {
			strictOp(pn, o)
		}
		slot := *ac.valid.Momentum.Timestamp
		hBefore := pn.Height()
		pn.ProduceAs(slot, ac.other.Address)
		r.Count("accept_own_pillar_non_elected_events", 1)
		if pn.Height() != hBefore {
			f := pn.Frontier()
			r.Violate(fmt.Sprintf("C05:accept:%s:own-pillar-momentum-in-a-slot-it-is-not-elected-for:accepted", cf.Name),
				fmt.Sprintf("configuration %s, genesis %s, situation %s: the local pillar %v was handed a producer event for the slot at %v, for which %v is elected; the node's frontier moved to height %d, produced by %v",
					cf.Name, gv.Name, sit.Name, ac.other.Address, slot.Unix(), ac.orig.Address, f.Height, f.Producer()),
				acceptCase{Part: "accept", Cfg: cfi, Genesis: gv.Name, Situation: sit.Name, Own: true})
		}
	}
	if only != nil {
		if only.Own {
			ownPillar()
			return
		}
		var m *mmut
		if only.Mut != nil {
			for i := range dom {
				if dom[i].Field == only.Mut.Field && dom[i].Val == only.Mut.Val {
					m = &dom[i]
				}
			}
			if m == nil {
				panic("replay: mutation not in the domain")
			}
		}
		try(m, only.Mode)
		return
	}
	// the valid momentum must be accepted on both paths
	before := r.Counters["accept_accepted_by_ApplyMomentum"] + r.Counters["accept_accepted_by_InsertChain"]
	try(nil, 0)
	if r.Counters["accept_accepted_by_ApplyMomentum"]+r.Counters["accept_accepted_by_InsertChain"] != before+2 {
		panic(fmt.Sprintf("situation %s: the producer's own momentum is not accepted", sit.Name))
	}
	try(nil, 2)
	for i := range dom {
		for mode := range mmodes {
			if c.Expired() {
				r.Incomplete = true
				return
			}
			try(&dom[i], mode)
		}
	}
	ownPillar()
	r.Count("accept_situations_done", 1)
}

// normReason cuts an error text before its first variable part (identifiers, numbers).
func normReason(s string) string {
	for _, sep := range []string{" {", " - expected", " Expected", "; length="} {
		if i := strings.Index(s, sep); i >= 0 {
			s = s[:i]
		}
	}
	if len(s) > 70 {
		s = s[:70]
	}
	return s
}
