package c09

import (
	"fmt"
	"sort"

	"github.com/zenon-network/go-zenon/common/types"
	"github.com/zenon-network/go-zenon/vm/abi"
	"github.com/zenon-network/go-zenon/vm/embedded/definition"
)

// contractDef is one embedded contract: its address and the ABI GetEmbeddedMethod resolves selectors with.
type contractDef struct {
	Name string
	Addr types.Address
	ABI  abi.ABIContract
}

var contracts = []contractDef{
	{"plasma", types.PlasmaContract, definition.ABIPlasma},
	{"pillar", types.PillarContract, definition.ABIPillars},
	{"token", types.TokenContract, definition.ABIToken},
	{"sentinel", types.SentinelContract, definition.ABISentinel},
	{"swap", types.SwapContract, definition.ABISwap},
	{"stake", types.StakeContract, definition.ABIStake},
	{"spork", types.SporkContract, definition.ABISpork},
	{"liquidity", types.LiquidityContract, definition.ABILiquidity},
	{"accelerator", types.AcceleratorContract, definition.ABIAccelerator},
	{"htlc", types.HtlcContract, definition.ABIHtlc},
	{"bridge", types.BridgeContract, definition.ABIBridge},
}

func methodNames(a abi.ABIContract) []string {
	var out []string
	for n := range a.Methods {
		out = append(out, n)
	}
	sort.Strings(out)
	return out
}

func Dev(args []string) {
	switch args[0] {
	case "abi":
		for _, c := range contracts {
			for _, n := range methodNames(c.ABI) {
				m := c.ABI.Methods[n]
				fmt.Printf("%-12s %s\n", c.Name, m.String())
			}
		}
	}
}
