// Package hx explores all histories (operation sequences) up to a depth bound over an alphabet on real nodes, starting
// from one or more base states, and evaluates caller-supplied invariants after every transition.
//
// A state is the history reaching it (live nodes cannot be cloned): every depth-d path is executed once on a fresh node;
// after each operation the exact state key (raw store digest + pool digest) is computed, and a prefix whose state was
// already expanded with at least as much remaining depth is pruned together with all its extensions (paths are
// enumerated in lexicographic order, so the first visitor's subtree is explored completely).
package hx

import (
	"fmt"
	"io"
	"os"
	"path/filepath"

	"verifmc/internal/ops"
	"verifmc/internal/vnode"
	"verifmc/internal/xs"
)

type Base struct {
	Name   string
	Prefix []ops.Op
}

type Step struct {
	Base    string
	History []ops.Op // operations after the base prefix, including the one just applied
	Op      ops.Op
	Outcome string
	Node    *vnode.Node
	Depth   int
}

type Explorer struct {
	Ctx      *xs.Ctx
	Res      *xs.Result
	Bases    []Base
	Alphabet []ops.Op
	Depth    int
	// NewNode creates the node (default: vnode.New with pillars).
	NewNode func(dir string) *vnode.Node
	// OnBase is called once per fresh node after the base prefix was applied (before any explored op).
	OnBase func(b Base, n *vnode.Node)
	// Check is called after every explored transition; it reports violations itself through Res.
	// Returning false stops the exploration below this state (e.g. after a violation).
	Check func(s *Step) bool
	// KeyExtra, optional, adds check-specific content to the state key.
	KeyExtra func(n *vnode.Node) string
	// Commute, optional: return true if op b directly after op a may be skipped because (b,a) is explored and the two
	// commute on everything the invariants read (canonical order reduction; must come with an argument at the call site).
	Commute func(a, b ops.Op) bool
	// SplitDepth: paths are assigned to shards by the index of their prefix of this length (default 2).
	SplitDepth int
	// SnapshotBases: execute each base prefix once per worker instead of once per path. The prefix up to its last
	// operation after which the pool is empty runs on a node that is then stopped; every path starts from a copy of that
	// node's directories (i.e. a node restarted on the base state: cold caches, empty pool) and replays only the
	// remaining prefix operations. For long prefixes (dozens of momentums) this is the difference between seconds and
	// minutes; the explored state space starts from a restarted node instead of a warm one.
	SnapshotBases bool
	snaps         map[string]*snap
}

type snap struct {
	dir  string
	tail []ops.Op
}

func (e *Explorer) newNodeAt(dir string) *vnode.Node {
	if e.NewNode != nil {
		return e.NewNode(dir)
	}
	return vnode.New(vnode.Options{Dir: dir})
}

func (e *Explorer) newNode() *vnode.Node { return e.newNodeAt(e.Ctx.TempDir()) }

// baseNode returns a node on which the base prefix has been applied.
func (e *Explorer) baseNode(b Base) *vnode.Node {
	if !e.SnapshotBases || len(b.Prefix) == 0 {
		n := e.newNode()
		for _, o := range b.Prefix {
			ops.Apply(n, o)
		}
		return n
	}
	if e.snaps == nil {
		e.snaps = map[string]*snap{}
	}
	sn := e.snaps[b.Name]
	if sn == nil {
		// pass 1: find the last prefix position after which nothing is pooled
		n := e.newNode()
		cut := -1
		for i, o := range b.Prefix {
			ops.Apply(n, o)
			if len(n.PoolBlocks()) == 0 {
				cut = i
			}
		}
		n.Destroy()
		// pass 2: the snapshot
		sn = &snap{dir: e.Ctx.TempDir(), tail: b.Prefix[cut+1:]}
		n = e.newNodeAt(sn.dir)
		for _, o := range b.Prefix[:cut+1] {
			ops.Apply(n, o)
		}
		n.Stop()
		e.snaps[b.Name] = sn
	}
	dir := e.Ctx.TempDir()
	copyTree(sn.dir, dir)
	n := e.newNodeAt(dir)
	for _, o := range sn.tail {
		ops.Apply(n, o)
	}
	return n
}

func copyTree(src, dst string) {
	err := filepath.Walk(src, func(p string, info os.FileInfo, err error) error {
		if err != nil {
			return err
		}
		rel, _ := filepath.Rel(src, p)
		t := filepath.Join(dst, rel)
		if info.IsDir() {
			return os.MkdirAll(t, 0o755)
		}
		if info.Name() == "LOCK" {
			return nil
		}
		in, err := os.Open(p)
		if err != nil {
			return err
		}
		defer in.Close()
		out, err := os.Create(t)
		if err != nil {
			return err
		}
		if _, err = io.Copy(out, in); err != nil {
			out.Close()
			return err
		}
		return out.Close()
	})
	if err != nil {
		panic(err)
	}
}

// Run explores everything. Counters: states (distinct state keys), transitions (operations executed and checked),
// histories (complete paths executed), pruned_prefixes.
func (e *Explorer) Run() {
	if e.SplitDepth == 0 {
		e.SplitDepth = 2
	}
	if e.SplitDepth > e.Depth {
		e.SplitDepth = e.Depth
	}
	for _, b := range e.Bases {
		e.runBase(b)
		if e.Res.Incomplete {
			return
		}
	}
}

func (e *Explorer) runBase(b Base) {
	r := e.Res
	k := len(e.Alphabet)
	seen := map[string]visit{} // state key -> first visitor (prefix) and the remaining depth it is expanded with
	path := make([]int, e.Depth)
	// iterate over all paths in lexicographic order with prefix skipping
	splitIdx := -1
	for {
		// shard assignment by the index of the prefix of length SplitDepth
		idx := 0
		for i := 0; i < e.SplitDepth; i++ {
			idx = idx*k + path[i]
		}
		skipTo := -1 // position whose digit must be incremented next (prune below it)
		if e.Ctx.Mine(idx) {
			if idx != splitIdx {
				splitIdx = idx
			}
			if e.Ctx.Expired() {
				r.Incomplete = true
				r.Note("hx: deadline reached in base %q", b.Name)
				return
			}
			skipTo = e.execute(b, path, seen)
		} else {
			skipTo = e.SplitDepth - 1
		}
		// advance: increment digit at skipTo (or last), zero everything after
		pos := e.Depth - 1
		if skipTo >= 0 && skipTo < pos {
			pos = skipTo
		}
		for pos >= 0 {
			path[pos]++
			if path[pos] < k {
				break
			}
			path[pos] = 0
			pos--
		}
		if pos < 0 {
			return
		}
		for i := pos + 1; i < e.Depth; i++ {
			path[i] = 0
		}
	}
}

// execute runs one path; returns the position at which the path was cut (prune everything sharing the prefix up to and
// including that position), or -1 if the whole path was executed.
type visit struct {
	prefix    string
	remaining int
}

func prefixKey(path []int, n int) string {
	b := make([]byte, n)
	for i := 0; i < n; i++ {
		b[i] = byte(path[i])
	}
	return string(b)
}

func (e *Explorer) execute(b Base, path []int, seen map[string]visit) int {
	r := e.Res
	n := e.baseNode(b)
	defer n.Destroy()
	if e.OnBase != nil {
		e.OnBase(b, n)
	}
	var hist []ops.Op
	r.Count("histories", 1)
	for i, oi := range path {
		o := e.Alphabet[oi]
		if i > 0 && e.Commute != nil && e.Commute(e.Alphabet[path[i-1]], o) {
			r.Count("commuting_orders_skipped", 1)
			return i
		}
		out := ops.Apply(n, o)
		hist = append(hist, o)
		r.Count("transitions", 1)
		r.Add("outcomes", o.K+":"+o.S+":"+outClass(out))
		st := &Step{Base: b.Name, History: append([]ops.Op{}, hist...), Op: o, Outcome: out, Node: n, Depth: i + 1}
		if !e.Check(st) {
			return i
		}
		key := n.FullDigest() + "|" + n.PoolDigest()
		if e.KeyExtra != nil {
			key += "|" + e.KeyExtra(n)
		}
		remaining := e.Depth - (i + 1)
		pk := prefixKey(path, i+1)
		if prev, ok := seen[key]; ok {
			if prev.prefix == pk {
				continue // our own earlier visit: this prefix is the one whose subtree is being explored
			}
			if prev.remaining >= remaining {
				// another prefix reached the same state first with at least as much depth left: its subtree (explored
				// completely, paths are enumerated in lexicographic order) covers ours
				if remaining > 0 {
					r.Count("pruned_prefixes", 1)
					return i
				}
				continue
			}
		} else {
			r.Count("states", 1)
		}
		seen[key] = visit{pk, remaining}
	}
	r.Sample(map[string]string{"base": b.Name, "history": ops.Hist(hist)})
	return -1
}

func outClass(out string) string {
	if len(out) > 24 {
		out = out[:24]
	}
	return out
}

func Describe(s *Step) string {
	return fmt.Sprintf("base %q, history [%s] (last op %v -> %s)", s.Base, ops.Hist(s.History), s.Op, s.Outcome)
}
