package c18

import (
	"bytes"
	"encoding/json"
	"fmt"
	"math/big"

	"github.com/zenon-network/go-zenon/chain/nom"
	"github.com/zenon-network/go-zenon/common/types"
	"github.com/zenon-network/go-zenon/rpc/api"

	"verifmc/internal/vnode"
	"verifmc/internal/xs"
)

// Part (b): JSON round trip of every stored account block (confirmed, pooled, descendant) and momentum through the rpc
// types and through the nom types: same protobuf bytes, same hash.

type rtSpec struct {
	Chain string `json:"chain"`
	Kind  string `json:"kind"` // block | momentum
	Hash  string `json:"hash"`
}

func rtViolate(r *xs.Result, ci *chainIndex, kind, key string, h types.Hash, what string) {
	r.Violate("C18:json-roundtrip:"+kind+":"+key, fmt.Sprintf("chain %q %s %v: %s", ci.name, kind, h, what),
		map[string]interface{}{"tier": curTier, "part": "b", "b": rtSpec{ci.name, kind, h.String()}})
}

func rtBlock(r *xs.Result, ci *chainIndex, ledger *api.LedgerApi, b *nom.AccountBlock) {
	defer func() {
		if p := recover(); p != nil {
			rtViolate(r, ci, "block", "panic", b.Hash, fmt.Sprintf("panicked: %v", p))
		}
	}()
	r.Count("b_roundtrips", 1)
	r.Add("nontrivial", digest([]byte("b|block|"+ci.name+"|"+b.Hash.String())))
	want, err := b.Serialize()
	if err != nil {
		panic(err)
	}
	shape := fmt.Sprintf("block|type%d|data%v|desc%d|znn%v|amount0%v|pow%v", b.BlockType, len(b.Data) > 0, len(b.DescendantBlocks), b.TokenStandard == types.ZnnTokenStandard, b.Amount.Sign() == 0, b.Difficulty > 0)
	r.Add("b_kinds", shape)
	// 1. nom type
	{
		js, err := json.Marshal(b)
		if err != nil {
			rtViolate(r, ci, "block", "nom-marshal-error", b.Hash, err.Error())
			return
		}
		back := new(nom.AccountBlock)
		if err := json.Unmarshal(js, back); err != nil {
			rtViolate(r, ci, "block", "nom-unmarshal-error", b.Hash, err.Error())
			return
		}
		got, err := back.Serialize()
		if err != nil || !bytes.Equal(got, want) {
			rtViolate(r, ci, "block", "nom-bytes-differ", b.Hash, fmt.Sprintf("protobuf bytes differ after nom.AccountBlock JSON round trip (err %v); json=%.300s", err, js))
		} else if back.ComputeHash() != b.Hash {
			rtViolate(r, ci, "block", "nom-hash-differs", b.Hash, "ComputeHash differs after nom.AccountBlock JSON round trip")
		}
	}
	// 2. rpc type as served by the ledger api
	rb, err := ledger.GetAccountBlockByHash(b.Hash)
	if err != nil {
		rtViolate(r, ci, "block", "rpc-error", b.Hash, err.Error())
		return
	}
	if rb == nil {
		if ci.confirmed[b.Hash] > 0 {
			rtViolate(r, ci, "block", "rpc-missing", b.Hash, "GetAccountBlockByHash returned null for a confirmed block")
		}
		r.Count("b_blocks_not_served_by_hash", 1) // pool blocks are served by GetUnconfirmedBlocksByAddress
		return
	}
	js, err := json.Marshal(rb)
	if err != nil {
		rtViolate(r, ci, "block", "rpc-marshal-error", b.Hash, err.Error())
		return
	}
	if !json.Valid(js) {
		rtViolate(r, ci, "block", "rpc-invalid-json", b.Hash, "MarshalJSON produced invalid JSON")
		return
	}
	if len(b.Data) > 0 {
		sampleOnce(r, "b", map[string]interface{}{"tier": curTier, "part": "b", "chain": ci.name, "block_json": clip(string(js), 700)})
	}
	back := new(api.AccountBlock)
	if err := json.Unmarshal(js, back); err != nil {
		rtViolate(r, ci, "block", "rpc-unmarshal-error", b.Hash, err.Error())
		return
	}
	lb, err := back.ToLedgerBlock()
	if err != nil {
		rtViolate(r, ci, "block", "rpc-toledger-error", b.Hash, err.Error())
		return
	}
	got, err := lb.Serialize()
	if err != nil || !bytes.Equal(got, want) {
		rtViolate(r, ci, "block", "rpc-bytes-differ", b.Hash, fmt.Sprintf("protobuf bytes differ after api.AccountBlock JSON round trip (err %v)", err))
		return
	}
	if h, err := back.ComputeHash(); err != nil || *h != b.Hash {
		rtViolate(r, ci, "block", "rpc-hash-differs", b.Hash, fmt.Sprintf("ComputeHash after round trip = %v (err %v)", h, err))
		return
	}
	// the extra fields survive too (second marshal is byte-identical)
	js2, err := json.Marshal(back)
	if err != nil || !bytes.Equal(js, js2) {
		rtViolate(r, ci, "block", "rpc-json-not-stable", b.Hash, fmt.Sprintf("second MarshalJSON differs from the first (err %v): %.200s vs %.200s", err, js, js2))
	}
	r.Count("b_rpc_blocks", 1)
}

func rtMomentum(r *xs.Result, ci *chainIndex, ledger *api.LedgerApi, d *nom.DetailedMomentum) {
	m := d.Momentum
	defer func() {
		if p := recover(); p != nil {
			rtViolate(r, ci, "momentum", "panic", m.Hash, fmt.Sprintf("panicked: %v", p))
		}
	}()
	r.Count("b_roundtrips", 1)
	r.Add("nontrivial", digest([]byte("b|momentum|"+ci.name+"|"+m.Hash.String())))
	r.Add("b_kinds", fmt.Sprintf("momentum|content%v|data%v", len(m.Content) > 0, len(m.Data) > 0))
	want, err := m.Serialize()
	if err != nil {
		panic(err)
	}
	check := func(path string, back *nom.Momentum) {
		got, err := back.Serialize()
		if err != nil || !bytes.Equal(got, want) {
			rtViolate(r, ci, "momentum", path+"-bytes-differ", m.Hash, fmt.Sprintf("protobuf bytes differ after JSON round trip (err %v)", err))
		} else if back.ComputeHash() != m.Hash {
			rtViolate(r, ci, "momentum", path+"-hash-differs", m.Hash, "ComputeHash differs after JSON round trip")
		}
	}
	{
		js, err := json.Marshal(m)
		if err != nil {
			rtViolate(r, ci, "momentum", "nom-marshal-error", m.Hash, err.Error())
			return
		}
		back := new(nom.Momentum)
		if err := json.Unmarshal(js, back); err != nil {
			rtViolate(r, ci, "momentum", "nom-unmarshal-error", m.Hash, err.Error())
			return
		}
		check("nom", back)
	}
	rm, err := ledger.GetMomentumByHash(m.Hash)
	if err != nil || rm == nil {
		rtViolate(r, ci, "momentum", "rpc-error", m.Hash, fmt.Sprintf("GetMomentumByHash: %v", err))
		return
	}
	js, err := json.Marshal(rm)
	if err != nil || !json.Valid(js) {
		rtViolate(r, ci, "momentum", "rpc-marshal-error", m.Hash, fmt.Sprintf("%v", err))
		return
	}
	back := new(api.Momentum)
	if err := json.Unmarshal(js, back); err != nil || back.Momentum == nil {
		rtViolate(r, ci, "momentum", "rpc-unmarshal-error", m.Hash, fmt.Sprintf("%v", err))
		return
	}
	check("rpc", back.Momentum)
	if back.Producer != m.Producer() {
		rtViolate(r, ci, "momentum", "rpc-producer-differs", m.Hash, "producer differs after JSON round trip")
	}
	// detailed form: momentum + its account blocks
	dl, err := ledger.GetDetailedMomentumsByHeight(m.Height, 1)
	if err != nil || dl == nil || len(dl.List) != 1 {
		rtViolate(r, ci, "momentum", "rpc-detailed-error", m.Hash, fmt.Sprintf("GetDetailedMomentumsByHeight(%d,1): %v", m.Height, err))
		return
	}
	js, err = json.Marshal(dl)
	if err != nil || !json.Valid(js) {
		rtViolate(r, ci, "momentum", "rpc-detailed-marshal-error", m.Hash, fmt.Sprintf("%v", err))
		return
	}
	dback := new(api.DetailedMomentumList)
	if err := json.Unmarshal(js, dback); err != nil || len(dback.List) != 1 || dback.List[0].Momentum == nil || dback.List[0].Momentum.Momentum == nil {
		rtViolate(r, ci, "momentum", "rpc-detailed-unmarshal-error", m.Hash, fmt.Sprintf("%v", err))
		return
	}
	check("rpc-detailed", dback.List[0].Momentum.Momentum)
	if len(dback.List[0].AccountBlocks) != len(d.AccountBlocks) {
		rtViolate(r, ci, "momentum", "rpc-detailed-blocks-differ", m.Hash, fmt.Sprintf("%d blocks after round trip, %d stored", len(dback.List[0].AccountBlocks), len(d.AccountBlocks)))
		return
	}
	for i, sb := range d.AccountBlocks {
		wb, _ := sb.Serialize()
		gb, err := dback.List[0].AccountBlocks[i].AccountBlock.Serialize()
		if err != nil || !bytes.Equal(wb, gb) {
			rtViolate(r, ci, "momentum", "rpc-detailed-blocks-differ", m.Hash, fmt.Sprintf("block %d (%v) differs after round trip of the detailed momentum", i, sb.Hash))
		}
	}
}

// rtVariants: type-level round trips of synthetic variants of a stored block (the stored chains hold no proof-of-work
// nonces, no amounts above 2^63 and no data bytes >= 0x80 in every position): same protobuf bytes and the same ComputeHash
// before and after, through nom.AccountBlock and through api.AccountBlock.
func rtVariants(r *xs.Result, ci *chainIndex, b *nom.AccountBlock) {
	all256 := make([]byte, 256)
	for i := range all256 {
		all256[i] = byte(i)
	}
	max := ^uint64(0)
	variants := []struct {
		name string
		mut  func(v *nom.AccountBlock)
	}{
		{"nonce", func(v *nom.AccountBlock) {
			v.Nonce = nom.Nonce{Data: [8]byte{1, 2, 3, 4, 5, 6, 7, 0xff}}
			v.Difficulty = 1<<63 + 5
		}},
		{"amount-2^255", func(v *nom.AccountBlock) {
			v.Amount = new(big.Int).Sub(new(big.Int).Lsh(big.NewInt(1), 255), big.NewInt(19))
		}},
		{"amount-0", func(v *nom.AccountBlock) { v.Amount = big.NewInt(0) }},
		{"data-256", func(v *nom.AccountBlock) { v.Data = all256 }},
		{"data-empty", func(v *nom.AccountBlock) { v.Data = []byte{} }},
		{"max-uints", func(v *nom.AccountBlock) {
			v.Version, v.ChainIdentifier, v.Height, v.FusedPlasma, v.BasePlasma, v.TotalPlasma, v.Difficulty = max, max, max, max, max, max, max
			v.MomentumAcknowledged.Height = max
		}},
		{"descendant-of-itself", func(v *nom.AccountBlock) {
			v.DescendantBlocks = []*nom.AccountBlock{vnode.CloneBlock(v), vnode.CloneBlock(v)}
		}},
	}
	for _, va := range variants {
		va := va
		func() {
			defer func() {
				if p := recover(); p != nil {
					rtViolate(r, ci, "block", "variant-"+va.name+"-panic", b.Hash, fmt.Sprintf("panicked: %v", p))
				}
			}()
			v := vnode.CloneBlock(b)
			va.mut(v)
			r.Count("b_roundtrips", 1)
			r.Count("b_variant_roundtrips", 1)
			r.Add("nontrivial", digest([]byte("b|variant|"+va.name+"|"+ci.name+"|"+b.Hash.String())))
			r.Add("b_kinds", "variant|"+va.name)
			want, err := v.Serialize()
			if err != nil {
				panic(err)
			}
			wantHash := v.ComputeHash()
			js, err := json.Marshal(v)
			if err != nil {
				rtViolate(r, ci, "block", "variant-"+va.name+"-marshal-error", b.Hash, err.Error())
				return
			}
			back := new(nom.AccountBlock)
			if err := json.Unmarshal(js, back); err != nil {
				rtViolate(r, ci, "block", "variant-"+va.name+"-unmarshal-error", b.Hash, err.Error())
				return
			}
			got, err := back.Serialize()
			if err != nil || !bytes.Equal(got, want) || back.ComputeHash() != wantHash {
				rtViolate(r, ci, "block", "variant-"+va.name+"-nom-differs", b.Hash, fmt.Sprintf("bytes/hash differ after nom.AccountBlock JSON round trip (err %v): %.300s", err, js))
				return
			}
			rb := &api.AccountBlock{AccountBlock: *v}
			js, err = json.Marshal(rb)
			if err != nil {
				rtViolate(r, ci, "block", "variant-"+va.name+"-marshal-error", b.Hash, err.Error())
				return
			}
			rback := new(api.AccountBlock)
			if err := json.Unmarshal(js, rback); err != nil {
				rtViolate(r, ci, "block", "variant-"+va.name+"-unmarshal-error", b.Hash, err.Error())
				return
			}
			lb, _ := rback.ToLedgerBlock()
			got, err = lb.Serialize()
			h, herr := rback.ComputeHash()
			if err != nil || herr != nil || !bytes.Equal(got, want) || *h != wantHash {
				rtViolate(r, ci, "block", "variant-"+va.name+"-rpc-differs", b.Hash, fmt.Sprintf("bytes/hash differ after api.AccountBlock JSON round trip (err %v %v): %.300s", err, herr, js))
			}
		}()
	}
}

func allBlocksOf(ci *chainIndex) []*nom.AccountBlock {
	var all []*nom.AccountBlock
	var walk func(b *nom.AccountBlock)
	walk = func(b *nom.AccountBlock) {
		all = append(all, b)
		for _, d := range b.DescendantBlocks {
			walk(d)
		}
	}
	for _, b := range ci.allBlocks {
		walk(b)
	}
	return all
}

func rtLists(r *xs.Result, ci *chainIndex, ledger *api.LedgerApi) {
	// AccountBlockList has its own MarshalJSON / UnmarshalJSON: per account, the whole list in one page
	for _, a := range []types.Address{u1, u2, u3, u4, types.TokenContract, types.StakeContract, types.SentinelContract, types.PillarContract} {
		for _, which := range []string{"confirmed", "pool", "unreceived"} {
			func() {
				defer func() {
					if p := recover(); p != nil {
						rtViolate(r, ci, "list", "panic", types.Hash{}, fmt.Sprintf("%v %s: panicked: %v", a, which, p))
					}
				}()
				var l *api.AccountBlockList
				var err error
				switch which {
				case "confirmed":
					l, err = ledger.GetAccountBlocksByPage(a, 0, api.RpcMaxPageSize)
				case "pool":
					l, err = ledger.GetUnconfirmedBlocksByAddress(a, 0, api.RpcMaxPageSize)
				default:
					l, err = ledger.GetUnreceivedBlocksByAddress(a, 0, 50)
				}
				if err != nil || l == nil {
					rtViolate(r, ci, "list", "rpc-error", types.Hash{}, fmt.Sprintf("%v %s: %v", a, which, err))
					return
				}
				r.Count("b_roundtrips", 1)
				js, err := json.Marshal(l)
				if err != nil || !json.Valid(js) {
					rtViolate(r, ci, "list", "marshal-error", types.Hash{}, fmt.Sprintf("%v %s: %v", a, which, err))
					return
				}
				back := new(api.AccountBlockList)
				if err := json.Unmarshal(js, back); err != nil {
					rtViolate(r, ci, "list", "unmarshal-error", types.Hash{}, fmt.Sprintf("%v %s: %v", a, which, err))
					return
				}
				if back.Count != l.Count || back.More != l.More || len(back.List) != len(l.List) {
					rtViolate(r, ci, "list", "differs", types.Hash{}, fmt.Sprintf("%v %s: count/more/len differ after round trip", a, which))
					return
				}
				for i := range l.List {
					w, _ := l.List[i].AccountBlock.Serialize()
					g, err := back.List[i].AccountBlock.Serialize()
					if err != nil || !bytes.Equal(w, g) {
						rtViolate(r, ci, "list", "differs", l.List[i].Hash, fmt.Sprintf("%v %s: element %d differs after round trip", a, which, i))
					}
				}
				js2, _ := json.Marshal(back)
				if !bytes.Equal(js, js2) {
					rtViolate(r, ci, "list", "json-not-stable", types.Hash{}, fmt.Sprintf("%v %s: second MarshalJSON differs", a, which))
				}
				r.Add("b_kinds", fmt.Sprintf("list|%s|nonempty%v", which, len(l.List) > 0))
			}()
		}
	}
}

func runB(c *xs.Ctx, r *xs.Result, it workItem) {
	ci := getChain(c, it.Chain)
	ledger := api.NewLedgerApi(&zAdapter{ci.n})
	for _, b := range allBlocksOf(ci) {
		if c.Expired() {
			r.Incomplete = true
			return
		}
		rtBlock(r, ci, ledger, b)
		rtVariants(r, ci, b)
	}
	for _, d := range ci.momentums {
		rtMomentum(r, ci, ledger, d)
	}
	rtLists(r, ci, ledger)
}

func replayB(c *xs.Ctx, r *xs.Result, s *rtSpec) {
	ci := getChain(c, s.Chain)
	ledger := api.NewLedgerApi(&zAdapter{ci.n})
	switch s.Kind {
	case "block":
		for _, b := range allBlocksOf(ci) {
			if b.Hash.String() == s.Hash {
				rtBlock(r, ci, ledger, b)
				rtVariants(r, ci, b)
			}
		}
	case "momentum":
		for _, d := range ci.momentums {
			if d.Momentum.Hash.String() == s.Hash {
				rtMomentum(r, ci, ledger, d)
			}
		}
	default:
		rtLists(r, ci, ledger)
	}
}
