mkmut () 
{ 
    f=$1;
    name=$2;
    cp /repo/$f /tmp/mm_a.go;
    cp /repo/$f /tmp/mm_b.go;
    python3 - "$3" "$4" <<'EOF'
import sys
s=open('/tmp/mm_b.go').read(); old,new=sys.argv[1],sys.argv[2]
assert s.count(old)==1, (s.count(old), old)
open('/tmp/mm_b.go','w').write(s.replace(old,new))
EOF

    diff -u /tmp/mm_a.go /tmp/mm_b.go | sed "s#^--- /tmp/mm_a.go.*#--- a/$f#; s#^+++ /tmp/mm_b.go.*#+++ b/$f#" > $name
}
mkmut "$@"
