package c13

import (
	"bytes"
	"crypto/ed25519"
	"fmt"
	"strings"

	g "github.com/zenon-network/go-zenon/chain/genesis/mock"
	"github.com/zenon-network/go-zenon/chain/nom"
	"github.com/zenon-network/go-zenon/common/types"
	"github.com/zenon-network/go-zenon/wallet"

	"verifmc/internal/ops"
	"verifmc/internal/vnode"
	"verifmc/internal/xs"
)

// Part C — two momentums with one hash. The original goes to one follower (its end state is the producer's own
// digest at that height), every altered form to another follower at the same height. Altered are the fields outside
// the momentum hash (PublicKey, Signature and their encodings), the fields inside it (with the hash kept, recomputed,
// or recomputed and signed again by the producing pillar) and — also outside the momentum hash — the account blocks
// that travel with the momentum in nom.DetailedMomentum.

type mVariant struct {
	Name   string
	Group  string
	Flavor string
	Mut    func(d *nom.DetailedMomentum)
}

func pillarKey(pub ed25519.PublicKey) *wallet.KeyPair {
	for _, k := range g.AllKeyPairs {
		if bytes.Equal(k.Public, pub) {
			return k
		}
	}
	return nil
}

func momentumVariants(d *nom.DetailedMomentum, bb bitBounds) []mVariant {
	var out []mVariant
	m := d.Momentum
	own := pillarKey(m.PublicKey)
	var other, otherPillar *wallet.KeyPair
	for _, k := range []*wallet.KeyPair{g.Pillar1, g.Pillar2, g.Pillar3} {
		if !bytes.Equal(k.Public, m.PublicKey) {
			otherPillar = k
		}
	}
	other = g.User1
	addOut := func(field, name string, f func(m *nom.Momentum)) {
		out = append(out, mVariant{Name: field + name, Group: field, Flavor: "keep", Mut: func(d *nom.DetailedMomentum) { f(d.Momentum) }})
	}
	// PublicKey
	addOut("PublicKey", "=registered-other-pillar", func(m *nom.Momentum) { m.PublicKey = append(ed25519.PublicKey{}, otherPillar.Public...) })
	addOut("PublicKey", "=user-key", func(m *nom.Momentum) { m.PublicKey = append(ed25519.PublicKey{}, other.Public...) })
	for _, i := range bb.key {
		i := i
		addOut("PublicKey", fmt.Sprintf("^bit%d", i), func(m *nom.Momentum) {
			m.PublicKey = append(ed25519.PublicKey{}, m.PublicKey...)
			flipBit(m.PublicKey, i)
		})
	}
	addOut("PublicKey", "=empty", func(m *nom.Momentum) { m.PublicKey = nil })
	addOut("PublicKey", "-lastbyte", func(m *nom.Momentum) { m.PublicKey = append(ed25519.PublicKey{}, m.PublicKey[:31]...) })
	addOut("PublicKey", "+00", func(m *nom.Momentum) { m.PublicKey = append(append(ed25519.PublicKey{}, m.PublicKey...), 0) })
	// Signature
	for _, i := range bb.sig {
		i := i
		addOut("Signature", fmt.Sprintf("^bit%d", i), func(m *nom.Momentum) { m.Signature = append([]byte{}, m.Signature...); flipBit(m.Signature, i) })
	}
	addOut("Signature", "S+L", func(m *nom.Momentum) {
		if s := sigPlusL(m.Signature); s != nil {
			m.Signature = s
		}
	})
	addOut("Signature", "=empty", func(m *nom.Momentum) { m.Signature = nil })
	addOut("Signature", "-lastbyte", func(m *nom.Momentum) { m.Signature = append([]byte{}, m.Signature[:63]...) })
	addOut("Signature", "+00", func(m *nom.Momentum) { m.Signature = append(append([]byte{}, m.Signature...), 0) })
	addOut("Signature", "=by-other-pillar", func(m *nom.Momentum) { m.Signature = otherPillar.Sign(m.Hash.Bytes()) })
	addOut("Signature", "&PublicKey=other-registered-pillar", func(m *nom.Momentum) {
		m.Signature = otherPillar.Sign(m.Hash.Bytes())
		m.PublicKey = append(ed25519.PublicKey{}, otherPillar.Public...)
	})
	addOut("Signature", "&PublicKey=user-key", func(m *nom.Momentum) {
		m.Signature = other.Sign(m.Hash.Bytes())
		m.PublicKey = append(ed25519.PublicKey{}, other.Public...)
	})
	// fields inside the hash
	type alt struct {
		field, name string
		f           func(m *nom.Momentum)
	}
	var in []alt
	u := func(field string, get func(m *nom.Momentum) *uint64, orig uint64) {
		seen := map[uint64]bool{orig: true}
		for _, v := range []uint64{orig + 1, orig - 1, 0, ^uint64(0)} {
			if seen[v] {
				continue
			}
			seen[v] = true
			v := v
			in = append(in, alt{field, fmt.Sprintf("=%d", v), func(m *nom.Momentum) { *get(m) = v }})
		}
	}
	h := func(field string, get func(m *nom.Momentum) *types.Hash, bits []int) {
		for _, i := range bits {
			i := i
			in = append(in, alt{field, fmt.Sprintf("^bit%d", i), func(m *nom.Momentum) { x := get(m); flipBit(x[:], i) }})
		}
		in = append(in, alt{field, "=zero", func(m *nom.Momentum) { *get(m) = types.ZeroHash }})
	}
	u("Version", func(m *nom.Momentum) *uint64 { return &m.Version }, m.Version)
	u("ChainIdentifier", func(m *nom.Momentum) *uint64 { return &m.ChainIdentifier }, m.ChainIdentifier)
	h("Hash", func(m *nom.Momentum) *types.Hash { return &m.Hash }, []int{0, 255})
	h("PreviousHash", func(m *nom.Momentum) *types.Hash { return &m.PreviousHash }, []int{0, 255})
	u("Height", func(m *nom.Momentum) *uint64 { return &m.Height }, m.Height)
	u("TimestampUnix", func(m *nom.Momentum) *uint64 { return &m.TimestampUnix }, m.TimestampUnix)
	in = append(in, alt{"Data", "+00", func(m *nom.Momentum) { m.Data = append(append([]byte{}, m.Data...), 0) }})
	h("ChangesHash", func(m *nom.Momentum) *types.Hash { return &m.ChangesHash }, bb.hash)
	in = append(in, alt{"Content", "+header", func(m *nom.Momentum) {
		m.Content = append(append(nom.MomentumContent{}, m.Content...), &types.AccountHeader{Address: ops.Users[0].Address, HashHeight: types.HashHeight{Hash: types.NewHash([]byte("x")), Height: 99}})
	}})
	if len(m.Content) > 0 {
		in = append(in, alt{"Content", "-last", func(m *nom.Momentum) { m.Content = append(nom.MomentumContent{}, m.Content[:len(m.Content)-1]...) }})
		in = append(in, alt{"Content", "[0].Hash^bit0", func(m *nom.Momentum) {
			c := *m.Content[0]
			c.Hash[0] ^= 1
			m.Content = append(nom.MomentumContent{&c}, m.Content[1:]...)
		}})
		in = append(in, alt{"Content", "[0].Height+1", func(m *nom.Momentum) {
			c := *m.Content[0]
			c.Height++
			m.Content = append(nom.MomentumContent{&c}, m.Content[1:]...)
		}})
		in = append(in, alt{"Content", "[0].Address=user3", func(m *nom.Momentum) {
			c := *m.Content[0]
			c.Address = ops.Users[2].Address
			m.Content = append(nom.MomentumContent{&c}, m.Content[1:]...)
		}})
	}
	if len(m.Content) > 1 {
		in = append(in, alt{"Content", "swap-first-last", func(m *nom.Momentum) {
			c := append(nom.MomentumContent{}, m.Content...)
			c[0], c[len(c)-1] = c[len(c)-1], c[0]
			m.Content = c
		}})
	}
	for _, a := range in {
		a := a
		for _, fl := range []string{"keep", "rehash", "resign"} {
			fl := fl
			if a.field == "Hash" && fl != "keep" {
				continue
			}
			name := a.field + a.name
			if fl != "keep" {
				name += "/" + fl
			}
			out = append(out, mVariant{Name: name, Group: a.field, Flavor: fl, Mut: func(d *nom.DetailedMomentum) {
				a.f(d.Momentum)
				if fl != "keep" {
					d.Momentum.Hash = d.Momentum.ComputeHash()
				}
				if fl == "resign" && own != nil {
					d.Momentum.Signature = own.Sign(d.Momentum.Hash.Bytes())
				}
			}})
		}
	}
	// the account blocks that travel with the momentum
	idxs := []int{}
	for i, b := range d.AccountBlocks {
		if b.BlockType != nom.BlockTypeContractSend {
			idxs = append(idxs, i)
		}
	}
	if len(idxs) > 4 { // stated bound for crowded momentums: first two and last two deliverable blocks
		idxs = append(append([]int{}, idxs[:2]...), idxs[len(idxs)-2:]...)
	}
	for _, bi := range idxs {
		bi := bi
		b := d.AccountBlocks[bi]
		class := classOf(b)
		for _, v := range variantsOf(b, bitBounds{hash: []int{0, 255}, sig: []int{0, 511}, key: []int{0}}) {
			v := v
			if v.Flavor != "keep" || inHash[v.Field] && v.Target == "" && v.Field != "Data" {
				continue // inside the block's own hash: covered by part B; here only what neither hash covers
			}
			out = append(out, mVariant{Name: fmt.Sprintf("block[%d].%s", bi, v.Name), Group: "detailed-block:" + class + ":" + keyGroup(class, v), Flavor: "keep",
				Mut: func(d *nom.DetailedMomentum) { v.Mut(d.AccountBlocks[bi]) }})
		}
	}
	if n := len(d.AccountBlocks); n > 0 {
		out = append(out, mVariant{Name: "blocks-last", Group: "detailed-block-list", Flavor: "keep", Mut: func(d *nom.DetailedMomentum) { d.AccountBlocks = d.AccountBlocks[:len(d.AccountBlocks)-1] }})
		out = append(out, mVariant{Name: "blocks+dup-first", Group: "detailed-block-list", Flavor: "keep", Mut: func(d *nom.DetailedMomentum) {
			d.AccountBlocks = append(d.AccountBlocks, vnode.CloneBlock(d.AccountBlocks[0]))
		}})
		out = append(out, mVariant{Name: "blocks-reversed", Group: "detailed-block-list", Flavor: "keep", Mut: func(d *nom.DetailedMomentum) {
			for i, j := 0, len(d.AccountBlocks)-1; i < j; i, j = i+1, j-1 {
				d.AccountBlocks[i], d.AccountBlocks[j] = d.AccountBlocks[j], d.AccountBlocks[i]
			}
		}})
	}
	return out
}

func serM(m *nom.Momentum) []byte {
	data, err := m.Serialize()
	if err != nil {
		panic(err)
	}
	return data
}

func exploreMomentum(c *xs.Ctx, r *xs.Result, hi int, rec *prodRec, onlyHeight uint64, only string) {
	bb := boundsFor(c.Thorough() || only != "")
	for h := uint64(2); h <= rec.H; h++ {
		if onlyHeight != 0 && h != onlyHeight {
			continue
		}
		orig := rec.Batch[h]
		origBytes := serM(orig.Momentum)
		origBlocks := map[types.Hash][]byte{}
		for _, b := range orig.AccountBlocks {
			origBlocks[b.Hash] = mustSer(b)
		}
		var f *vnode.Node
		var cleanD string
		fresh := func() {
			if f != nil {
				f.Destroy()
			}
			f = vnode.New(vnode.Options{Dir: c.TempDir(), NoPillars: true})
			if h > 2 {
				if _, err, pan := f.InsertChain(wireBatch(rec.Batch[2:h])); err != nil || pan != nil {
					panic(fmt.Sprintf("momentum follower setup: %v %v", err, pan))
				}
			}
			cleanD = f.FullDigest()
			r.Count("followers_built", 1)
		}
		poolClean := func() bool {
			for _, b := range f.PoolBlocks() {
				if ob, ok := origBlocks[b.Hash]; !ok || !bytes.Equal(ob, mustSer(b)) {
					return false
				}
			}
			return true
		}
		honest := func() (ok bool, desc string) {
			idx, err, pan := f.InsertChain(wireBatch([]*nom.DetailedMomentum{orig}))
			r.Count("transitions", 1)
			if err != nil || pan != nil {
				return false, fmt.Sprintf("InsertChain of the producer's own momentum %d: idx=%d err=%v panic=%v", h, idx, err, pan)
			}
			if f.FullDigest() != rec.Full[h] {
				return false, "store differs from the producer's after the producer's own momentum"
			}
			return true, ""
		}
		fresh()
		for _, v := range momentumVariants(orig, bb) {
			if only != "" && v.Name != only {
				continue
			}
			if c.Expired() {
				r.Incomplete = true
				r.Note("deadline reached in history %d momentum %d", hi, h)
				f.Destroy()
				return
			}
			r.Count("states", 1)
			r.Count("momentum_variants", 1)
			r.Add("variant_fields", "momentum:"+v.Group+"/"+v.Flavor)
			D := vnode.CloneDetailed(orig)
			v.Mut(D)
			if sameDetailed(D, orig) {
				r.Count("variants_identical_to_original", 1)
				continue
			}
			w, err := wireMomentum(D)
			if err != nil {
				r.Count("variants_not_encodable_on_wire", 1)
				continue
			}
			rep := replayB{"C", hi, 0, v.Name, h}
			where := fmt.Sprintf("history %d [%s], momentum %d (%d account blocks), variant %s", hi, ops.Hist(rec.Hist), h, len(orig.AccountBlocks), v.Name)
			idx, ierr, ipan := f.InsertChain([]*nom.DetailedMomentum{w})
			r.Count("transitions", 1)
			key := func(outcome string) string { return "C13:momentum:" + v.Group + "-altered:" + outcome }
			if ipan != nil {
				r.Add("momentum_outcomes", v.Group+"/"+v.Flavor+":panic")
				r.Count("momentum_variants_panic", 1)
				// a panic in InsertChain on malformed input belongs to C16/C15; here it is a refusal as long as nothing changed
			}
			if f.Height() == h {
				// accepted
				sameHash := w.Momentum.Hash == orig.Momentum.Hash
				st, _ := f.Chain.GetFrontierMomentumStore().GetMomentumByHeight(h)
				if !sameHash || v.Flavor == "resign" {
					r.Count("other_momentums_accepted", 1)
					r.Add("momentum_outcomes", v.Group+"/"+v.Flavor+":other-momentum-accepted")
				} else if st == nil || !bytes.Equal(serM(st), origBytes) || f.FullDigest() != rec.Full[h] {
					r.Count("momentum_variants_accepted_divergent", 1)
					r.Add("momentum_outcomes", v.Group+"/"+v.Flavor+":accepted-divergent")
					r.Violate(key("variant-accepted:follower-store-differs-from-producer"), where+fmt.Sprintf(": accepted (idx=%d err=%v); stored momentum bytes equal: %v; store equal to the producer's: %v", idx, ierr, st != nil && bytes.Equal(serM(st), origBytes), f.FullDigest() == rec.Full[h]), rep)
				} else {
					r.Count("momentum_variants_accepted_identical", 1)
					r.Add("momentum_outcomes", v.Group+"/"+v.Flavor+":accepted-identical")
				}
				fresh()
				continue
			}
			// refused
			r.Count("momentum_variants_refused", 1)
			if ierr != nil {
				r.Add("momentum_refusal_reasons", errClass(ierr))
			}
			if d := f.FullDigest(); d != cleanD {
				r.Violate(key("refused-variant-changes-store"), where+": refused, but the follower's store changed", rep)
				fresh()
				continue
			}
			if poolClean() {
				r.Add("momentum_outcomes", v.Group+"/"+v.Flavor+":refused")
				continue
			}
			// the refused delivery left a second form of an account block in the pool
			ok, desc := honest()
			if ok {
				r.Add("momentum_outcomes", v.Group+"/"+v.Flavor+":refused:second-form-pooled-but-replaced")
			} else {
				r.Count("momentum_variants_poisoning", 1)
				r.Add("momentum_outcomes", v.Group+"/"+v.Flavor+":refused:second-form-stays-pooled:follower-rejects-producer-momentum")
				// same outcome and same mechanism as in part B, reached through InsertChain instead of AddAccountBlocks
				k := "C13:" + strings.TrimPrefix(v.Group, "detailed-block:") + "-altered:variant-accepted:follower-rejects-producer-momentum"
				r.Violate(k, where+fmt.Sprintf(": the momentum was refused (err=%v) but its altered account block stayed in the follower's pool; afterwards %s", ierr, desc), rep)
			}
			fresh()
		}
		if only == "" {
			if ok, desc := honest(); !ok {
				r.Violate("C13:momentum:honest-follower-diverges", fmt.Sprintf("history %d momentum %d: follower that had only refused variants before: %s", hi, h, desc), replayB{"C", hi, 0, "", h})
			} else {
				st, _ := f.Chain.GetFrontierMomentumStore().GetMomentumByHeight(h)
				if st == nil || !bytes.Equal(serM(st), origBytes) {
					r.Violate("C13:momentum:honest-momentum-stored-differently", fmt.Sprintf("history %d momentum %d: stored momentum bytes differ between producer and follower", hi, h), replayB{"C", hi, 0, "", h})
				}
				r.Count("honest_momentum_followers_identical", 1)
			}
		}
		f.Destroy()
		r.Count("momentums_explored", 1)
	}
}

func sameDetailed(a, b *nom.DetailedMomentum) bool {
	if !bytes.Equal(serM(a.Momentum), serM(b.Momentum)) || len(a.AccountBlocks) != len(b.AccountBlocks) {
		return false
	}
	for i := range a.AccountBlocks {
		if !bytes.Equal(mustSer(a.AccountBlocks[i]), mustSer(b.AccountBlocks[i])) {
			return false
		}
	}
	return true
}
