package c09

import (
	"fmt"
	"math/big"
	"strings"

	"github.com/zenon-network/go-zenon/chain/nom"
	"github.com/zenon-network/go-zenon/common/types"
	"github.com/zenon-network/go-zenon/vm/abi"

	"verifmc/internal/vnode"
)

// caseID identifies one generated call; it is the replay object.
type caseID struct {
	Regime   int      `json:"regime"`
	Base     string   `json:"base"`
	Contract string   `json:"contract"`
	Method   string   `json:"method"`
	Actor    int      `json:"actor"`
	Args     []string `json:"args"`   // labels of the argument values
	Amount   string   `json:"amount"` // amount selector
	Token    string   `json:"token"`  // token selector
	Enc      string   `json:"enc,omitempty"`
	Raw      bool     `json:"raw,omitempty"`   // relayed as a self-signed block (chain bridge AddAccountBlocks) instead of the node's generator
	After    *caseID  `json:"after,omitempty"` // depth 2: executed after this call on the same state
}

func (c *caseID) String() string {
	s := fmt.Sprintf("%s.%s(%s) from %s amount=%s token=%s", c.Contract, c.Method, strings.Join(c.Args, ","), actors[c.Actor].Name, c.Amount, c.Token)
	if c.Enc != "" {
		s += " encoding=" + c.Enc
	}
	if c.Raw {
		s += " [relayed block]"
	}
	if c.After != nil {
		s = "[" + c.After.String() + "] then " + s
	}
	return s
}

func contractByName(name string) *contractDef {
	for i := range contracts {
		if contracts[i].Name == name {
			return &contracts[i]
		}
	}
	panic("no contract " + name)
}

func tokenFor(env *stateEnv, sel string) types.ZenonTokenStandard {
	switch sel {
	case "znn":
		return znn
	case "qsr":
		return qsr
	case "custom":
		if env.HasEntries {
			return env.Custom
		}
		return unknownZ
	case "none":
		return types.ZeroTokenStandard
	case "locked":
		if env.HasEntries {
			return env.Locked
		}
		return unknownZ
	case "bridge-owned":
		if env.BridgeTok != types.ZeroTokenStandard {
			return env.BridgeTok
		}
		return unknownZ
	case "bridge-owned-full-fee":
		if env.BridgeFull != types.ZeroTokenStandard {
			return env.BridgeFull
		}
		return unknownZ
	}
	panic("token selector " + sel)
}

func balanceOf(n *vnode.Node, a types.Address, zts types.ZenonTokenStandard) *big.Int {
	bal, err := n.Chain.GetFrontierAccountStore(a).GetBalance(zts)
	if err != nil || bal == nil {
		return big.NewInt(0)
	}
	return new(big.Int).Set(bal)
}

func amountFor(n *vnode.Node, c *contractDef, method string, actorIdx int, zts types.ZenonTokenStandard, sel string) *big.Int {
	switch sel {
	case "zero":
		return big.NewInt(0)
	case "one":
		return big.NewInt(1)
	case "required":
		a, _ := requiredAmount(c, method)
		return a
	case "all": // 2^255-1 clipped to what the account holds
		b := balanceOf(n, actors[actorIdx].Key.Address, zts)
		if b.Cmp(p255m1) > 0 {
			return new(big.Int).Set(p255m1)
		}
		return b
	}
	panic("amount selector " + sel)
}

// resolveArgs turns labels into Go values (plain values first, then the derived ones, which see the plain ones).
func resolveArgs(env *stateEnv, c *contractDef, m *abi.Method, actorIdx int, doms [][]val, labels []string) []interface{} {
	ctx := &callCtx{Env: env, Actor: actorIdx, Args: make([]interface{}, len(labels))}
	var derived []int
	for i, l := range labels {
		found := false
		for _, x := range doms[i] {
			if x.L == l {
				found = true
				if x.F != nil {
					derived = append(derived, i)
				} else {
					ctx.Args[i] = x.V
				}
				break
			}
		}
		if !found {
			panic(fmt.Sprintf("%s.%s arg %d: no value labelled %q", c.Name, m.Name, i, l))
		}
	}
	for _, i := range derived {
		for _, x := range doms[i] {
			if x.L == labels[i] {
				ctx.Args[i] = derive(x, ctx)
			}
		}
	}
	return ctx.Args
}

// derive computes a signature-like value from the call's other arguments; when these are such that the repository's
// message builders cannot produce a message at all, the value degenerates to a marker string.
func derive(x val, ctx *callCtx) (out interface{}) {
	defer func() {
		if r := recover(); r != nil {
			out = fmt.Sprintf("unsignable: %v", r)
		}
	}()
	return x.F(ctx)
}

type domKey struct {
	env   *stateEnv
	key   string
	actor int
}

var domCache = map[domKey][][]val{}

func fullDomains(env *stateEnv, c *contractDef, m *abi.Method, actorIdx int) [][]val {
	k := domKey{env, c.Name + "." + m.Name, actorIdx}
	if d, ok := domCache[k]; ok {
		return d
	}
	if len(domCache) > 4096 {
		domCache = map[domKey][][]val{}
	}
	d := buildDomains(env, c, m, actorIdx)
	domCache[k] = d
	return d
}

func buildDomains(env *stateEnv, c *contractDef, m *abi.Method, actorIdx int) [][]val {
	doms := make([][]val, len(m.Inputs))
	for i := range m.Inputs {
		doms[i] = domainFor(c, m, i, env, actorIdx)
		seen := map[string]bool{}
		for _, x := range doms[i] {
			if seen[x.L] {
				panic(fmt.Sprintf("%s.%s arg %d: duplicate label %q", c.Name, m.Name, i, x.L))
			}
			seen[x.L] = true
		}
	}
	return doms
}

// template builds the user send block of a case against node n (amount "all" reads the balance).
func (id *caseID) template(env *stateEnv, n *vnode.Node) *nom.AccountBlock {
	c := contractByName(id.Contract)
	m, ok := c.ABI.Methods[id.Method]
	if !ok {
		panic("no method " + id.Method)
	}
	doms := fullDomains(env, c, &m, id.Actor)
	args := resolveArgs(env, c, &m, id.Actor, doms, id.Args)
	data, err := c.ABI.PackMethod(m.Name, args...)
	if err != nil {
		panic(fmt.Sprintf("pack %s: %v", id.String(), err))
	}
	if id.Enc != "" {
		found := false
		for _, e := range encodingVariants(&m, data) {
			if e.L == id.Enc {
				data, found = e.Data, true
			}
		}
		if !found {
			panic("no encoding variant " + id.Enc)
		}
	}
	zts := tokenFor(env, id.Token)
	return &nom.AccountBlock{BlockType: nom.BlockTypeUserSend, Address: actors[id.Actor].Key.Address, ToAddress: c.Addr, TokenStandard: zts,
		Amount: amountFor(n, c, id.Method, id.Actor, zts, id.Amount), Data: data}
}

// submit delivers the call to node n: through the node's own block generator (Supervisor.GenerateFromTemplate, what the
// wallet RPC uses) or, for Raw cases, as a block signed by the sender and relayed by a peer (chain bridge
// AddAccountBlocks -> Supervisor.ApplyBlock): there the data stays exactly as sent.
func (id *caseID) submit(env *stateEnv, n *vnode.Node, insert bool) (*nom.AccountBlock, error) {
	t := id.template(env, n)
	if !id.Raw {
		if !insert {
			tx, err := n.Generate(t)
			if err != nil {
				return nil, err
			}
			return tx.Block, nil
		}
		return n.Submit(t)
	}
	want := append([]byte{}, t.Data...)
	tx, err := n.Generate(t)
	if err != nil {
		// the generator refuses: fill the block in from a canonical twin to see what the relay path says
		twin := *id
		twin.Enc, twin.Raw = "", false
		tx, err = n.Generate(twin.template(env, n))
		if err != nil {
			return nil, fmt.Errorf("canonical twin refused: %w", err)
		}
	}
	b := tx.Block
	b.Data = want
	b.Hash = b.ComputeHash()
	sig, _, pub, err := vnode.SignerFor(b.Address)(b.Hash.Bytes())
	if err != nil {
		return nil, err
	}
	b.Signature, b.PublicKey = sig, pub
	if !insert {
		clone := vnode.CloneBlock(b)
		if _, err := applyOnly(n, clone); err != nil {
			return nil, err
		}
		return b, nil
	}
	if err, pan := n.AddAccountBlocks([]*nom.AccountBlock{vnode.CloneBlock(b)}); pan != nil {
		return nil, fmt.Errorf("AddAccountBlocks panicked: %v", pan)
	} else if err != nil {
		return nil, err
	}
	return b, nil
}

func applyOnly(n *vnode.Node, b *nom.AccountBlock) (tx *nom.AccountBlockTransaction, err error) {
	defer func() {
		if r := recover(); r != nil {
			err = fmt.Errorf("ApplyBlock panicked: %v", r)
		}
	}()
	return n.Sup.ApplyBlock(b)
}
