package c12

import (
	"fmt"
	"math/big"

	g "github.com/zenon-network/go-zenon/chain/genesis/mock"
	"github.com/zenon-network/go-zenon/chain/nom"
	"github.com/zenon-network/go-zenon/common/types"
	"github.com/zenon-network/go-zenon/vm/embedded/definition"

	"verifmc/internal/vnode"
	"verifmc/internal/xs"
)

// Part "origin": where fused plasma may come from. User 6 of the mock genesis holds nothing and has no QSR fused for it.
// For every (token, amount) of a small menu a funded account calls plasma.Fuse for user 6; two momentums later (send and
// contract receive confirmed) user 6 is sent one unit of ZNN and tries to receive it paying with fused plasma and no
// proof of work. Oracle: the receive is accepted only if the ledger shows QSR fused for user 6 that provides the plasma
// it claims - QSR that left the caller's balance for the plasma contract. A Fuse that was accepted with another token
// must not buy plasma.

type originReplay struct {
	Part   string `json:"part"`
	Token  string `json:"token"`
	Amount int64  `json:"amount,string"`
}

func originPart(c *xs.Ctx, r *xs.Result, only *originReplay) {
	tokens := []struct {
		name string
		zts  types.ZenonTokenStandard
	}{{"qsr", types.QsrTokenStandard}, {"znn", types.ZnnTokenStandard}}
	amounts := []int64{10 * g.Zexp, 50 * g.Zexp, 10*g.Zexp + 1, 9 * g.Zexp}
	for _, tk := range tokens {
		for _, amt := range amounts {
			if only != nil && (only.Token != tk.name || only.Amount != amt) {
				continue
			}
			rep := originReplay{"origin", tk.name, amt}
			r.Count("origin_cases", 1)
			n := vnode.New(vnode.Options{Dir: c.TempDir()})
			step := func(k int) {
				for i := 0; i < k; i++ {
					if _, err := n.Produce(0); err != nil {
						panic(fmt.Sprintf("C12 origin: produce: %v", err))
					}
				}
			}
			step(1)
			ben := g.User6.Address
			qsrBefore, _ := n.Chain.GetFrontierAccountStore(g.User1.Address).GetBalance(types.QsrTokenStandard)
			_, ferr := n.Submit(&nom.AccountBlock{BlockType: nom.BlockTypeUserSend, Address: g.User1.Address, ToAddress: types.PlasmaContract, TokenStandard: tk.zts,
				Amount: big.NewInt(amt), Data: definition.ABIPlasma.PackMethodPanic(definition.FuseMethodName, ben)})
			step(3)
			send, err := n.Send(g.User2.Address, ben, types.ZnnTokenStandard, big.NewInt(1), nil)
			if err != nil {
				panic(fmt.Sprintf("C12 origin: transfer to the beneficiary: %v", err))
			}
			step(2)
			// QSR that actually went from the caller to the plasma contract and was not sent back
			qsrAfter, _ := n.Chain.GetFrontierAccountStore(g.User1.Address).GetBalance(types.QsrTokenStandard)
			pending := int64(0)
			if hs, err := n.Chain.GetFrontierMomentumStore().GetAccountMailbox(g.User1.Address).GetUnreceivedAccountBlockHashes(16); err == nil {
				pending = int64(len(hs)) // a refund waiting to be received
			}
			qsrLocked := new(big.Int).Sub(qsrBefore, qsrAfter)
			if tk.zts != types.QsrTokenStandard || pending > 0 || ferr != nil {
				qsrLocked = big.NewInt(0)
			}
			plasmaRef := refFusedPlasma(qsrLocked)
			fr, _ := n.Chain.GetFrontierAccountStore(ben).Frontier()
			var prev types.Hash
			height := uint64(1)
			if fr != nil {
				prev, height = fr.Hash, fr.Height+1
			}
			m := n.Frontier()
			b := &nom.AccountBlock{Version: 1, ChainIdentifier: m.ChainIdentifier, BlockType: nom.BlockTypeUserReceive, Address: ben, PreviousHash: prev, Height: height,
				MomentumAcknowledged: m.Identifier(), FromBlockHash: send.Hash, FusedPlasma: refBasePlasma}
			b.Hash = b.ComputeHash()
			b.Signature = g.User6.Sign(b.Hash.Bytes())
			b.PublicKey = g.User6.Public
			_, aerr := n.Sup.ApplyBlock(b)
			outcome := fmt.Sprintf("fuse(%s,%d)=%v locked=%v -> receive-with-fused-plasma accepted=%v", tk.name, amt, ferr == nil, qsrLocked, aerr == nil)
			r.Add("origin_outcomes", fmt.Sprintf("%s|%v|%v|%v", tk.name, ferr == nil, qsrLocked.Sign() > 0, aerr == nil))
			if aerr == nil {
				r.Count("origin_accepted", 1)
				if plasmaRef < refBasePlasma {
					r.Violate("C12:origin:fused-plasma-accepted-without-qsr-fused:"+tk.name,
						fmt.Sprintf("%s: the ledger shows %v QSR fused for the account (plasma %d), yet its block paying with %d fused plasma and no proof of work was accepted", outcome, qsrLocked, plasmaRef, refBasePlasma), rep)
				}
			} else {
				r.Count("origin_refused", 1)
				if plasmaRef >= refBasePlasma {
					r.Count("origin_refused_though_qsr_fused", 1)
				}
			}
			n.Destroy()
		}
	}
}
