package main

import (
	"os"

	"verifmc/props/c09"

	"verifmc/internal/xs"
)

func main() {
	if len(os.Args) > 1 && os.Args[1] == "dev" {
		c09.Dev(os.Args[2:])
		return
	}
	xs.Main()
}
