package c13

import (
	"bytes"
	"crypto/ed25519"
	"fmt"
	"math/big"
	"reflect"
	"strings"

	"github.com/zenon-network/go-zenon/chain/nom"
	"github.com/zenon-network/go-zenon/common/types"
	"github.com/zenon-network/go-zenon/vm/abi"
	"github.com/zenon-network/go-zenon/vm/embedded/definition"

	"verifmc/internal/ops"
)

// variant is one alteration of an accepted block. Mut is applied to a private copy of the top-level block; the copy then
// travels through the same RLP encoding the protocol uses for TxMsg before it reaches the follower.
type variant struct {
	Name   string // unique within the block
	Target string // "" (the block itself) or "d<i>" (its i-th descendant)
	Field  string
	Flavor string // keep: all other fields untouched | rehash: hashes recomputed bottom-up | resign: rehash + signed with the account's real key (key-holder variant)
	Mut    func(top *nom.AccountBlock)
}

type bitBounds struct {
	hash []int // bit positions flipped in 32-byte fields
	sig  []int // in the 64-byte signature
	key  []int // in the 32-byte public key
}

func rangeInts(n int) []int {
	out := make([]int, n)
	for i := range out {
		out[i] = i
	}
	return out
}

func boundsFor(thorough bool) bitBounds {
	if thorough {
		return bitBounds{hash: rangeInts(256), sig: rangeInts(512), key: rangeInts(256)}
	}
	b := bitBounds{hash: []int{7, 129, 255}, sig: []int{255, 503, 504, 511}, key: []int{7, 255}}
	for i := 0; i < 256; i += 8 {
		b.hash = append(b.hash, i)
	}
	for i := 0; i < 512; i += 16 {
		b.sig = append(b.sig, i)
	}
	for i := 0; i < 256; i += 16 {
		b.key = append(b.key, i)
	}
	return b
}

func flipBit(b []byte, i int) { b[i/8] ^= 1 << (uint(i) % 8) }

var maxAmount = new(big.Int).Sub(new(big.Int).Lsh(big.NewInt(1), 255), big.NewInt(1))

// ed25519 group order L, little endian
var edL = func() *big.Int {
	l, _ := new(big.Int).SetString("7237005577332262213973186563042994240857116359379907606001950938285454250989", 10)
	return l
}()

func sigPlusL(sig []byte) []byte {
	if len(sig) != 64 {
		return nil
	}
	le := append([]byte{}, sig[32:]...)
	for i, j := 0, len(le)-1; i < j; i, j = i+1, j-1 {
		le[i], le[j] = le[j], le[i]
	}
	s := new(big.Int).SetBytes(le)
	s.Add(s, edL)
	be := s.Bytes()
	if len(be) > 32 {
		return nil
	}
	out := append([]byte{}, sig[:32]...)
	tail := make([]byte, 32)
	for i := 0; i < len(be); i++ {
		tail[i] = be[len(be)-1-i]
	}
	return append(out, tail...)
}

func otherKey(addr types.Address) int {
	for i := 0; i < 13; i++ {
		if ops.Users[i].Address != addr {
			return i
		}
	}
	panic("no other key")
}

func keyIndex(addr types.Address) int {
	for i, k := range ops.Users {
		if k.Address == addr {
			return i
		}
	}
	return -1
}

// rehash recomputes the Hash fields bottom-up (descendants first), as a sender who owns the block would.
func rehash(b *nom.AccountBlock) {
	for _, d := range b.DescendantBlocks {
		rehash(d)
	}
	b.Hash = b.ComputeHash()
}

func resign(b *nom.AccountBlock) {
	rehash(b)
	if i := keyIndex(b.Address); i >= 0 {
		b.Signature = ops.Users[i].Sign(b.Hash.Bytes())
		b.PublicKey = append(ed25519.PublicKey{}, ops.Users[i].Public...)
	}
}

// inHash tells whether the field is part of ComputeHash's pre-image of the block that carries it.
var inHash = map[string]bool{"Version": true, "ChainIdentifier": true, "BlockType": true, "PreviousHash": true, "Height": true,
	"MomentumAcknowledged": true, "Address": true, "ToAddress": true, "Amount": true, "TokenStandard": true, "FromBlockHash": true,
	"DescendantBlocks": true, "Data": true, "FusedPlasma": true, "Difficulty": true, "Nonce": true, "Plasma-split": true}

type alteration struct {
	field, name string
	f           func(b *nom.AccountBlock)
}

func u64Alts(field string, get func(b *nom.AccountBlock) *uint64, orig uint64, extra ...uint64) []alteration {
	vals := []uint64{orig + 1, orig - 1, 0, ^uint64(0)}
	vals = append(vals, extra...)
	seen := map[uint64]bool{orig: true}
	var out []alteration
	for _, v := range vals {
		if seen[v] {
			continue
		}
		seen[v] = true
		v := v
		out = append(out, alteration{field, fmt.Sprintf("=%d", v), func(b *nom.AccountBlock) { *get(b) = v }})
	}
	return out
}

func hashAlts(field string, get func(b *nom.AccountBlock) *types.Hash, orig types.Hash, bits []int) []alteration {
	var out []alteration
	for _, i := range bits {
		i := i
		out = append(out, alteration{field, fmt.Sprintf("^bit%d", i), func(b *nom.AccountBlock) { h := get(b); flipBit(h[:], i) }})
	}
	if !orig.IsZero() {
		out = append(out, alteration{field, "=zero", func(b *nom.AccountBlock) { *get(b) = types.ZeroHash }})
	}
	out = append(out, alteration{field, "=ones", func(b *nom.AccountBlock) {
		h := get(b)
		for i := range h {
			h[i] = 0xff
		}
	}})
	return out
}

func addrAlts(field string, get func(b *nom.AccountBlock) *types.Address, orig types.Address) []alteration {
	var out []alteration
	cands := []struct {
		n string
		a types.Address
	}{{"user3", ops.Users[2].Address}, {"user4", ops.Users[3].Address}, {"zero", types.ZeroAddress}, {"token-contract", types.TokenContract}, {"stake-contract", types.StakeContract}}
	for _, cnd := range cands {
		if cnd.a == orig {
			continue
		}
		a := cnd.a
		out = append(out, alteration{field, "=" + cnd.n, func(b *nom.AccountBlock) { *get(b) = a }})
	}
	out = append(out, alteration{field, "^lastbit", func(b *nom.AccountBlock) { a := get(b); a[len(a)-1] ^= 1 }})
	return out
}

// alterations of every field of one (sub)block.
func alterations(o *nom.AccountBlock, bb bitBounds, short bool) []alteration {
	hb := bb.hash
	if short {
		hb = []int{0, 255}
	}
	var out []alteration
	out = append(out, u64Alts("Version", func(b *nom.AccountBlock) *uint64 { return &b.Version }, o.Version)...)
	out = append(out, u64Alts("ChainIdentifier", func(b *nom.AccountBlock) *uint64 { return &b.ChainIdentifier }, o.ChainIdentifier)...)
	out = append(out, u64Alts("BlockType", func(b *nom.AccountBlock) *uint64 { return &b.BlockType }, o.BlockType, 1, 2, 3, 4, 5, 6)...)
	out = append(out, hashAlts("Hash", func(b *nom.AccountBlock) *types.Hash { return &b.Hash }, o.Hash, []int{0, 255})...)
	out = append(out, hashAlts("PreviousHash", func(b *nom.AccountBlock) *types.Hash { return &b.PreviousHash }, o.PreviousHash, []int{0, 255})...)
	out = append(out, u64Alts("Height", func(b *nom.AccountBlock) *uint64 { return &b.Height }, o.Height)...)
	out = append(out, hashAlts("MomentumAcknowledged", func(b *nom.AccountBlock) *types.Hash { return &b.MomentumAcknowledged.Hash }, o.MomentumAcknowledged.Hash, []int{0})...)
	for _, a := range u64Alts("MomentumAcknowledged", func(b *nom.AccountBlock) *uint64 { return &b.MomentumAcknowledged.Height }, o.MomentumAcknowledged.Height) {
		a.name = ".Height" + a.name
		out = append(out, a)
	}
	out = append(out, addrAlts("Address", func(b *nom.AccountBlock) *types.Address { return &b.Address }, o.Address)...)
	out = append(out, addrAlts("ToAddress", func(b *nom.AccountBlock) *types.Address { return &b.ToAddress }, o.ToAddress)...)
	// Amount
	{
		orig := o.Amount
		if orig == nil {
			orig = big.NewInt(0)
		}
		cands := []*big.Int{new(big.Int).Add(orig, big.NewInt(1)), new(big.Int).Sub(orig, big.NewInt(1)), big.NewInt(0), maxAmount, new(big.Int).Add(maxAmount, big.NewInt(1))}
		seen := map[string]bool{orig.String(): true}
		for _, v := range cands {
			if v.Sign() < 0 || seen[v.String()] {
				continue
			}
			seen[v.String()] = true
			v := v
			out = append(out, alteration{"Amount", "=" + shortNum(v), func(b *nom.AccountBlock) { b.Amount = new(big.Int).Set(v) }})
		}
		out = append(out, alteration{"Amount", "=nil", func(b *nom.AccountBlock) { b.Amount = nil }})
	}
	for _, z := range []struct {
		n string
		z types.ZenonTokenStandard
	}{{"znn", types.ZnnTokenStandard}, {"qsr", types.QsrTokenStandard}, {"zero", types.ZeroTokenStandard}} {
		if z.z == o.TokenStandard {
			continue
		}
		zz := z.z
		out = append(out, alteration{"TokenStandard", "=" + z.n, func(b *nom.AccountBlock) { b.TokenStandard = zz }})
	}
	out = append(out, hashAlts("FromBlockHash", func(b *nom.AccountBlock) *types.Hash { return &b.FromBlockHash }, o.FromBlockHash, []int{0, 255})...)
	// Data
	out = append(out, alteration{"Data", "+00", func(b *nom.AccountBlock) { b.Data = append(append([]byte{}, b.Data...), 0) }})
	if len(o.Data) > 0 {
		out = append(out, alteration{"Data", "^firstbit", func(b *nom.AccountBlock) { b.Data = append([]byte{}, b.Data...); b.Data[0] ^= 0x80 }})
		out = append(out, alteration{"Data", "^lastbit", func(b *nom.AccountBlock) { b.Data = append([]byte{}, b.Data...); b.Data[len(b.Data)-1] ^= 1 }})
		out = append(out, alteration{"Data", "=empty", func(b *nom.AccountBlock) { b.Data = nil }})
		out = append(out, alteration{"Data", "-lastbyte", func(b *nom.AccountBlock) { b.Data = append([]byte{}, b.Data[:len(b.Data)-1]...) }})
	}
	out = append(out, u64Alts("FusedPlasma", func(b *nom.AccountBlock) *uint64 { return &b.FusedPlasma }, o.FusedPlasma)...)
	out = append(out, u64Alts("Difficulty", func(b *nom.AccountBlock) *uint64 { return &b.Difficulty }, o.Difficulty, 1500, 1<<63)...)
	// Nonce (the block's Difficulty is 0 in every history: the nonce is not needed, but it is hashed)
	for _, i := range []int{0, 63} {
		i := i
		out = append(out, alteration{"Nonce", fmt.Sprintf("^bit%d", i), func(b *nom.AccountBlock) { flipBit(b.Nonce.Data[:], i) }})
	}
	// FusedPlasma vs Difficulty splits that keep the total plasma
	if o.Difficulty == 0 && o.FusedPlasma >= 2 {
		for _, d := range []uint64{1, o.FusedPlasma} {
			d := d
			out = append(out, alteration{"Plasma-split", fmt.Sprintf("fused-%d,difficulty+%d", d, d*1500), func(b *nom.AccountBlock) { b.FusedPlasma -= d; b.Difficulty = d * 1500 }})
		}
	}
	out = append(out, u64Alts("BasePlasma", func(b *nom.AccountBlock) *uint64 { return &b.BasePlasma }, o.BasePlasma)...)
	out = append(out, u64Alts("TotalPlasma", func(b *nom.AccountBlock) *uint64 { return &b.TotalPlasma }, o.TotalPlasma)...)
	out = append(out, alteration{"TotalPlasma", "&BasePlasma=0", func(b *nom.AccountBlock) { b.BasePlasma, b.TotalPlasma = 0, 0 }})
	out = append(out, hashAlts("ChangesHash", func(b *nom.AccountBlock) *types.Hash { return &b.ChangesHash }, o.ChangesHash, hb)...)
	// PublicKey
	ok := ops.Users[otherKey(o.Address)]
	out = append(out, alteration{"PublicKey", "=other-valid-key", func(b *nom.AccountBlock) { b.PublicKey = append(ed25519.PublicKey{}, ok.Public...) }})
	if len(o.PublicKey) == 32 {
		kb := bb.key
		if short {
			kb = []int{0}
		}
		for _, i := range kb {
			i := i
			out = append(out, alteration{"PublicKey", fmt.Sprintf("^bit%d", i), func(b *nom.AccountBlock) {
				b.PublicKey = append(ed25519.PublicKey{}, b.PublicKey...)
				flipBit(b.PublicKey, i)
			}})
		}
		out = append(out, alteration{"PublicKey", "=empty", func(b *nom.AccountBlock) { b.PublicKey = nil }})
		out = append(out, alteration{"PublicKey", "-lastbyte", func(b *nom.AccountBlock) { b.PublicKey = append(ed25519.PublicKey{}, b.PublicKey[:31]...) }})
		out = append(out, alteration{"PublicKey", "+00", func(b *nom.AccountBlock) { b.PublicKey = append(append(ed25519.PublicKey{}, b.PublicKey...), 0) }})
	}
	// Signature
	out = append(out, alteration{"Signature", "=by-other-key", func(b *nom.AccountBlock) { b.Signature = ok.Sign(b.Hash.Bytes()) }})
	out = append(out, alteration{"Signature", "&PublicKey=other-key", func(b *nom.AccountBlock) {
		b.Signature = ok.Sign(b.Hash.Bytes())
		b.PublicKey = append(ed25519.PublicKey{}, ok.Public...)
	}})
	if len(o.Signature) == 64 {
		sb := bb.sig
		if short {
			sb = []int{0}
		}
		for _, i := range sb {
			i := i
			out = append(out, alteration{"Signature", fmt.Sprintf("^bit%d", i), func(b *nom.AccountBlock) { b.Signature = append([]byte{}, b.Signature...); flipBit(b.Signature, i) }})
		}
		out = append(out, alteration{"Signature", "S+L", func(b *nom.AccountBlock) {
			if s := sigPlusL(b.Signature); s != nil {
				b.Signature = s
			}
		}})
		out = append(out, alteration{"Signature", "=empty", func(b *nom.AccountBlock) { b.Signature = nil }})
		out = append(out, alteration{"Signature", "-lastbyte", func(b *nom.AccountBlock) { b.Signature = append([]byte{}, b.Signature[:63]...) }})
		out = append(out, alteration{"Signature", "+00", func(b *nom.AccountBlock) { b.Signature = append(append([]byte{}, b.Signature...), 0) }})
	}
	return out
}

func shortNum(v *big.Int) string {
	s := v.String()
	if len(s) > 12 {
		return fmt.Sprintf("%s..(%dbits)", s[:6], v.BitLen())
	}
	return s
}

func extraDescendant(parent *nom.AccountBlock) *nom.AccountBlock {
	d := &nom.AccountBlock{Version: 1, ChainIdentifier: parent.ChainIdentifier, BlockType: nom.BlockTypeContractSend, Address: parent.Address,
		ToAddress: ops.Users[2].Address, Amount: big.NewInt(1), TokenStandard: types.ZnnTokenStandard, MomentumAcknowledged: parent.MomentumAcknowledged,
		PreviousHash: parent.PreviousHash, Height: parent.Height}
	d.Hash = d.ComputeHash()
	return d
}

// variantsOf enumerates every alteration of block o (and of each of its descendants) inside the bit bounds.
func variantsOf(o *nom.AccountBlock, bb bitBounds) []variant {
	var out []variant
	add := func(target string, sel func(top *nom.AccountBlock) *nom.AccountBlock, sub *nom.AccountBlock, short bool) {
		for _, a := range alterations(sub, bb, short) {
			a := a
			flavors := []string{"keep"}
			if inHash[a.field] {
				flavors = append(flavors, "rehash")
				if target == "" && keyIndex(o.Address) >= 0 && a.field != "Address" {
					flavors = append(flavors, "resign")
				}
			}
			for _, fl := range flavors {
				fl := fl
				name := a.field + a.name
				if target != "" {
					name = target + "." + name
				}
				if fl != "keep" {
					name += "/" + fl
				}
				out = append(out, variant{Name: name, Target: target, Field: a.field, Flavor: fl, Mut: func(top *nom.AccountBlock) {
					a.f(sel(top))
					switch fl {
					case "rehash":
						rehash(top)
					case "resign":
						resign(top)
					}
				}})
			}
		}
	}
	add("", func(top *nom.AccountBlock) *nom.AccountBlock { return top }, o, false)
	for i, d := range o.DescendantBlocks {
		i := i
		add(fmt.Sprintf("d%d", i), func(top *nom.AccountBlock) *nom.AccountBlock { return top.DescendantBlocks[i] }, d, !(i == 0))
	}
	// structure of the descendant list
	structural := []alteration{
		{"DescendantBlocks", "+extra", func(b *nom.AccountBlock) { b.DescendantBlocks = append(b.DescendantBlocks, extraDescendant(b)) }},
	}
	if n := len(o.DescendantBlocks); n > 0 {
		structural = append(structural,
			alteration{"DescendantBlocks", "-last", func(b *nom.AccountBlock) { b.DescendantBlocks = b.DescendantBlocks[:len(b.DescendantBlocks)-1] }},
			alteration{"DescendantBlocks", "+dup-last", func(b *nom.AccountBlock) {
				b.DescendantBlocks = append(b.DescendantBlocks, b.DescendantBlocks[len(b.DescendantBlocks)-1].Copy())
			}},
			alteration{"DescendantBlocks", "d0+nested", func(b *nom.AccountBlock) {
				b.DescendantBlocks[0].DescendantBlocks = append(b.DescendantBlocks[0].DescendantBlocks, extraDescendant(b))
			}},
		)
		if n > 1 {
			structural = append(structural, alteration{"DescendantBlocks", "swap01", func(b *nom.AccountBlock) {
				b.DescendantBlocks[0], b.DescendantBlocks[1] = b.DescendantBlocks[1], b.DescendantBlocks[0]
			}})
		}
	}
	for _, a := range structural {
		a := a
		for _, fl := range []string{"keep", "rehash"} {
			fl := fl
			name := a.field + a.name
			if fl != "keep" {
				name += "/" + fl
			}
			target := ""
			if strings.HasPrefix(a.name, "d0") {
				target = "d0"
			}
			out = append(out, variant{Name: name, Target: target, Field: a.field, Flavor: fl, Mut: func(top *nom.AccountBlock) {
				a.f(top)
				if fl == "rehash" {
					top.Hash = top.ComputeHash() // descendants keep their Hash fields
				}
			}})
		}
	}
	// non-canonical encodings of the same call arguments
	if o.BlockType == nom.BlockTypeUserSend && types.IsEmbeddedAddress(o.ToAddress) {
		for _, nc := range nonCanonical(o.ToAddress, o.Data) {
			nc := nc
			for _, fl := range []string{"keep", "resign"} {
				fl := fl
				name := "Data:abi:" + nc.name
				if fl != "keep" {
					name += "/" + fl
				}
				out = append(out, variant{Name: name, Field: "Data-abi-" + nc.kind, Flavor: fl, Mut: func(top *nom.AccountBlock) {
					top.Data = append([]byte{}, nc.data...)
					if fl == "resign" {
						resign(top)
					}
				}})
			}
		}
	}
	return out
}

// ---------------------------------------------------------------------------------------------------------------------
// non-canonical ABI encodings

var abiOf = map[types.Address]*abi.ABIContract{
	types.StakeContract:    &definition.ABIStake,
	types.PlasmaContract:   &definition.ABIPlasma,
	types.PillarContract:   &definition.ABIPillars,
	types.TokenContract:    &definition.ABIToken,
	types.SentinelContract: &definition.ABISentinel,
}

type ncData struct {
	name string
	kind string // same-args: decodes to the same argument values as the canonical bytes | other: does not decode or decodes differently
	data []byte
}

func decodeArgs(to types.Address, data []byte) (string, []interface{}, bool) {
	a := abiOf[to]
	if a == nil || len(data) < 4 {
		return "", nil, false
	}
	m, err := a.MethodById(data[:4])
	if err != nil {
		return "", nil, false
	}
	if len(m.Inputs) == 0 {
		return m.Name, nil, len(data) == 4
	}
	var vals []interface{}
	ok := func() (ok bool) {
		defer func() {
			if r := recover(); r != nil {
				ok = false
			}
		}()
		v, err := m.Inputs.UnpackValues(data[4:])
		vals = v
		return err == nil
	}()
	return m.Name, vals, ok
}

func sameVals(a, b []interface{}) bool {
	if len(a) != len(b) {
		return false
	}
	for i := range a {
		x, y := a[i], b[i]
		if bx, ok := x.(*big.Int); ok {
			by, ok2 := y.(*big.Int)
			if !ok2 || bx.Cmp(by) != 0 {
				return false
			}
			continue
		}
		if !reflect.DeepEqual(x, y) {
			return false
		}
	}
	return true
}

// nonCanonical derives byte strings from the canonical call data: trailing bytes, dirty padding in every static word
// that is narrower than 32 bytes, dirty padding behind dynamic contents, shifted dynamic offsets (a gap between head
// and tail) and, where two dynamic arguments exist, the second one pointed at the first one's tail (overlap).
func nonCanonical(to types.Address, canon []byte) []ncData {
	a := abiOf[to]
	if a == nil || len(canon) < 4 {
		return nil
	}
	m, err := a.MethodById(canon[:4])
	if err != nil {
		return nil
	}
	_, cvals, ok := decodeArgs(to, canon)
	if !ok {
		return nil
	}
	var cands []ncData
	addc := func(name string, d []byte) { cands = append(cands, ncData{name: name, data: d}) }
	cp := func() []byte { return append([]byte{}, canon...) }
	addc("trailing-00", append(cp(), 0))
	addc("trailing-ff", append(cp(), 0xff))
	addc("trailing-word", append(cp(), make([]byte, 32)...))
	body := canon[4:]
	nHead := len(m.Inputs) * 32
	var dynIdx []int
	for i, in := range m.Inputs {
		w := 4 + i*32
		if w+32 > len(canon) {
			break
		}
		switch in.Type.T {
		case abi.StringTy, abi.BytesTy, abi.SliceTy:
			dynIdx = append(dynIdx, i)
			// offset word: high byte set (huge offset) is "other"; dirty padding behind the content
			off := int(new(big.Int).SetBytes(canon[w : w+32]).Int64())
			if off+32 <= len(body) {
				l := int(new(big.Int).SetBytes(body[off : off+32]).Int64())
				padded := (l + 31) / 32 * 32
				if padded > l && off+32+padded <= len(body) {
					d := cp()
					d[4+off+32+padded-1] ^= 1
					addc(fmt.Sprintf("arg%d-dirty-tail-padding", i), d)
				}
				// length word with a dirty high byte
				d := cp()
				d[4+off] ^= 0x80
				addc(fmt.Sprintf("arg%d-length-highbit", i), d)
			}
		case abi.BoolTy:
			d := cp()
			d[w] ^= 1
			addc(fmt.Sprintf("arg%d-bool-dirty-padding", i), d)
			d = cp()
			d[w+31] ^= 2
			addc(fmt.Sprintf("arg%d-bool-value2", i), d)
		case abi.IntTy, abi.UintTy:
			if in.Type.Size < 256 {
				d := cp()
				d[w] ^= 1
				addc(fmt.Sprintf("arg%d-int%d-dirty-padding-hi", i, in.Type.Size), d)
				d = cp()
				d[w+31-in.Type.Size/8] ^= 1
				addc(fmt.Sprintf("arg%d-int%d-dirty-padding-lo", i, in.Type.Size), d)
				if in.Type.T == abi.IntTy {
					d = cp()
					for k := 0; k < 32-in.Type.Size/8; k++ {
						d[w+k] ^= 0xff
					}
					addc(fmt.Sprintf("arg%d-int%d-padding-inverted", i, in.Type.Size), d)
				}
			}
		case abi.AddressTy:
			d := cp()
			d[w] ^= 1
			addc(fmt.Sprintf("arg%d-address-dirty-padding-hi", i), d)
			d = cp()
			d[w+31-types.AddressSize] ^= 1
			addc(fmt.Sprintf("arg%d-address-dirty-padding-lo", i), d)
		case abi.TokenStandardTy:
			d := cp()
			d[w] ^= 1
			addc(fmt.Sprintf("arg%d-zts-dirty-padding-hi", i), d)
			d = cp()
			d[w+31-types.ZenonTokenStandardSize] ^= 1
			addc(fmt.Sprintf("arg%d-zts-dirty-padding-lo", i), d)
		}
	}
	if len(dynIdx) > 0 && nHead <= len(body) {
		// gap of one word between head and tail: every offset + 32
		d := append([]byte{}, canon[:4+nHead]...)
		d = append(d, make([]byte, 32)...)
		d = append(d, body[nHead:]...)
		for _, i := range dynIdx {
			w := 4 + i*32
			off := new(big.Int).SetBytes(d[w : w+32])
			off.Add(off, big.NewInt(32))
			copy(d[w:w+32], leftPad32(off.Bytes()))
		}
		addc("offsets-shifted-by-one-word", d)
		// tails in reverse order (offsets permuted)
		if len(dynIdx) >= 2 {
			type tail struct{ b []byte }
			var tails [][]byte
			for _, i := range dynIdx {
				w := 4 + i*32
				off := int(new(big.Int).SetBytes(canon[w : w+32]).Int64())
				l := int(new(big.Int).SetBytes(body[off : off+32]).Int64())
				tails = append(tails, body[off:off+32+(l+31)/32*32])
			}
			d := append([]byte{}, canon[:4+nHead]...)
			pos := nHead
			for k := len(dynIdx) - 1; k >= 0; k-- {
				w := 4 + dynIdx[k]*32
				copy(d[w:w+32], leftPad32(big.NewInt(int64(pos)).Bytes()))
				d = append(d, tails[k]...)
				pos += len(tails[k])
			}
			addc("tails-reordered", d)
			// overlap: second dynamic argument points at the first one's tail (only "same-args" if contents are equal)
			d = cp()
			w0, w1 := 4+dynIdx[0]*32, 4+dynIdx[1]*32
			copy(d[w1:w1+32], d[w0:w0+32])
			addc("offsets-overlapping", d)
		}
	}
	var out []ncData
	for _, cnd := range cands {
		if bytes.Equal(cnd.data, canon) {
			continue
		}
		_, v, ok := decodeArgs(to, cnd.data)
		cnd.kind = "other"
		if ok && sameVals(v, cvals) {
			cnd.kind = "same-args"
		}
		out = append(out, cnd)
	}
	return out
}

func leftPad32(b []byte) []byte {
	out := make([]byte, 32)
	copy(out[32-len(b):], b)
	return out
}
