package p2p

// Verification-only exports for check C15 (never part of the repository; compiled in through the build overlay).
// Wrappers only, no logic.

import (
	"hash"
	"io"
)

// VerifFrameRW exposes the unexported rlpxFrameRW.
type VerifFrameRW struct{ rw *rlpxFrameRW }

// VerifNewFrameRW builds a real rlpxFrameRW over conn from the given session secrets.
func VerifNewFrameRW(conn io.ReadWriter, aesKey, macKey []byte, egressMAC, ingressMAC hash.Hash) *VerifFrameRW {
	return &VerifFrameRW{newRLPXFrameRW(conn, secrets{AES: aesKey, MAC: macKey, EgressMAC: egressMAC, IngressMAC: ingressMAC})}
}

func (f *VerifFrameRW) WriteMsg(msg Msg) error { return f.rw.WriteMsg(msg) }
func (f *VerifFrameRW) ReadMsg() (Msg, error)  { return f.rw.ReadMsg() }
