// Package c07 — versioned store: a view at commit X shows exactly the state as of X.
//
// Part A (sequential, explicit-state): breadth-first search over all operation sequences up to a depth bound on a real
// db.Manager (leveldb-backed and memory-backed), compared step by step with a map-per-version reference model.
// Part B (schedules, c07_sched.go): writer vs readers under the controlled scheduler.
package c07

import (
	"bytes"
	"crypto/sha256"
	"encoding/hex"
	"encoding/json"
	"fmt"
	"sort"
	"strings"
	"time"

	"github.com/syndtr/goleveldb/leveldb"

	"github.com/zenon-network/go-zenon/common"
	"github.com/zenon-network/go-zenon/common/db"
	"github.com/zenon-network/go-zenon/common/types"

	"verifmc/internal/xs"
)

// ---------------------------------------------------------------------------------------------------------------------
// alphabet

// The second byte of the nested keys is 0xff: a scan prefix that ends in 0xff has no "last byte + 1" upper bound (the
// bound carries into the byte before), which is where hand-rolled prefix ranges go wrong.
var (
	kK   = []byte{0x10}
	kKA  = []byte{0x10, 0xff}
	kKAB = []byte{0x10, 0xff, 0x12}
	kM   = []byte{0x20}
	kNil = []byte{} // the zero-length key: sorts before everything, and is what the key p becomes below Subset(p)
	keys = [][]byte{kNil, kK, kKA, kKAB, kM}
	vX   = []byte{1}
	vY   = []byte{2}
	vE   = []byte{}
)

type write struct {
	Key []byte
	Val []byte // nil = delete
}

var writeSets = [][]write{
	{{kK, vX}},
	{{kKA, vY}, {kM, vX}, {kNil, vX}},
	{{kK, nil}, {kNil, nil}},
	{{kK, vE}, {kM, nil}, {kNil, vY}},
	{{kKAB, vX}, {kK, vY}},
	{{kKA, nil}, {kM, vY}},
}

// prefixes under which every view is also read through Subset(p), and over which Subset(p).Snapshot() views are opened
// (slices with spare capacity, as prefixes built with append / JoinBytes have: an implementation that appends to the prefix
// it was given writes into the caller's backing array)
var subPrefixes = [][]byte{sentinelled(0x10), sentinelled(0x10, 0xff)}

// sentinelled returns a prefix slice of capacity 16 whose spare capacity is filled with 0xAA: whoever is handed the slice
// may read its len bytes and nothing else is its to write (checked after every use: untouchedBeyondLen)
func sentinelled(b ...byte) []byte {
	buf := make([]byte, 16)
	for i := range buf {
		buf[i] = 0xAA
	}
	copy(buf, b)
	return buf[:len(b)]
}

func untouchedBeyondLen(p []byte) bool {
	for _, c := range p[len(p):cap(p)] {
		if c != 0xAA {
			return false
		}
	}
	return true
}

// view writes (through an open view)
var viewWrites = []write{{kK, vY}, {kKA, nil}, {kKAB, vE}}

type Op struct {
	K string `json:"k"` // C commit on frontier | S commit on stale parent | P pop | V open view at stack index | G open view at a popped id | F open frontier | N snapshot of view | W write through view
	A int    `json:"a"` // write set / view index / stack index
	B int    `json:"b"` // stale: how far below the frontier; W: which write
}

func (o Op) String() string { return fmt.Sprintf("%s%d.%d", o.K, o.A, o.B) }
func opsString(os []Op) string {
	var s []string
	for _, o := range os {
		s = append(s, o.String())
	}
	return strings.Join(s, " ")
}

// ---------------------------------------------------------------------------------------------------------------------
// mock commit / transaction (same shape as the repository's own test helpers)

type mockCommit struct {
	hash, prevHash types.Hash
	height         uint64
}

func (mc *mockCommit) Identifier() types.HashHeight {
	return types.HashHeight{Height: mc.height, Hash: mc.hash}
}
func (mc *mockCommit) Previous() types.HashHeight {
	return types.HashHeight{Height: mc.height - 1, Hash: mc.prevHash}
}
func (mc *mockCommit) Serialize() ([]byte, error) {
	return common.JoinBytes(mc.hash.Bytes(), mc.prevHash.Bytes(), common.Uint64ToBytes(mc.height)), nil
}

type mockTx struct {
	patch  db.Patch
	commit db.Commit
}

func (m *mockTx) GetCommits() []db.Commit { return []db.Commit{m.commit} }
func (m *mockTx) StealChanges() db.Patch {
	p := m.patch
	m.patch = nil
	return p
}

func newTx(prev types.HashHeight, ws int, salt byte) (*mockTx, *mockCommit) {
	c := &mockCommit{prevHash: prev.Hash, height: prev.Height + 1}
	c.hash = types.NewHash(common.JoinBytes(prev.Hash.Bytes(), []byte{byte(ws), salt}))
	p := db.NewPatch()
	for _, w := range writeSets[ws] {
		if w.Val == nil {
			p.Delete(w.Key)
		} else {
			p.Put(w.Key, w.Val)
		}
	}
	return &mockTx{patch: p, commit: c}, c
}

// ---------------------------------------------------------------------------------------------------------------------
// reference model

type content map[string][]byte // present keys only; value may be empty

func (c content) clone() content {
	o := content{}
	for k, v := range c {
		o[k] = v
	}
	return o
}
func (c content) apply(w write) {
	if w.Val == nil {
		delete(c, string(w.Key))
	} else {
		c[string(w.Key)] = w.Val
	}
}
func (c content) digest() string {
	var ks []string
	for k := range c {
		ks = append(ks, k)
	}
	sort.Strings(ks)
	h := sha256.New()
	for _, k := range ks {
		fmt.Fprintf(h, "%x=%x;", k, c[k])
	}
	return hex.EncodeToString(h.Sum(nil))[:12]
}

// refView models a view as a layer: its content is its parent's current content (a fixed version content for views
// opened from the manager, the live content of the parent view for Snapshot()s) overlaid with its own writes.
// A snapshot therefore also sees writes made through its ancestors after it was taken: the property only demands that
// writes are visible to "that view and its descendants only", not that snapshots are point-in-time.
type refView struct {
	root   content  // for views opened from the manager
	parent *refView // for snapshots
	sub    []byte   // non-nil: the view is parent.Subset(sub).Snapshot(): it sees the parent's keys below sub, with sub stripped
	own    []write  // writes made through this view itself
	desc   string
	handle db.DB
}

// restrict returns the part of c below prefix p, with p stripped from the keys.
func restrict(c content, p []byte) content {
	o := content{}
	for k, v := range c {
		if bytes.HasPrefix([]byte(k), p) {
			o[k[len(p):]] = v
		}
	}
	return o
}

func (v *refView) base() content {
	if v.parent != nil {
		if v.sub != nil {
			return restrict(v.parent.cur(), v.sub)
		}
		return v.parent.cur()
	}
	return v.root.clone()
}

// prefix is what has been stripped from the keys this view sees (concatenated over nested subsets).
func (v *refView) prefix() []byte {
	if v.parent == nil {
		return nil
	}
	return append(append([]byte{}, v.parent.prefix()...), v.sub...)
}
func (v *refView) cur() content {
	c := v.base()
	for _, w := range v.own {
		c.apply(w)
	}
	return c
}

type ref struct {
	stack    []types.HashHeight // stack[0] = zero identifier
	versions []content          // parallel to stack
	popped   []types.HashHeight
	views    []*refView
}

func newRef() *ref {
	return &ref{stack: []types.HashHeight{types.ZeroHashHeight}, versions: []content{{}}}
}
func (r *ref) frontier() types.HashHeight { return r.stack[len(r.stack)-1] }
func (r *ref) frontierContent() content   { return r.versions[len(r.versions)-1] }

func bookkeeping(c content, id types.HashHeight, data []byte) {
	c[string([]byte{0})] = id.Serialize()
	c[string(common.JoinBytes([]byte{1}, id.Hash.Bytes()))] = common.Uint64ToBytes(id.Height)
	c[string(common.JoinBytes([]byte{2}, common.Uint64ToBytes(id.Height)))] = data
}

// ---------------------------------------------------------------------------------------------------------------------
// execution of one operation sequence on a real manager, comparing with the reference after every step

type run struct {
	mgr    db.Manager
	ldb    bool
	ref    *ref
	salt   byte
	errs   []string
	errKey string
}

func (x *run) fail(key, format string, a ...interface{}) {
	if x.errKey == "" {
		x.errKey = key
	}
	x.errs = append(x.errs, fmt.Sprintf(format, a...))
}

func rawDump(m db.Manager) string {
	l := db.VerifLevelDB(m)
	if l == nil {
		return ""
	}
	it := l.NewIterator(nil, nil)
	defer it.Release()
	h := sha256.New()
	for it.Next() {
		fmt.Fprintf(h, "%x=%x;", it.Key(), it.Value())
	}
	return hex.EncodeToString(h.Sum(nil))[:16]
}

func (x *run) apply(o Op) {
	r := x.ref
	switch o.K {
	case "C":
		tx, c := newTx(r.frontier(), o.A, 0)
		data, _ := c.Serialize()
		if err := x.mgr.Add(tx); err != nil {
			x.fail("commit-on-frontier-refused", "commit on the frontier refused: %v", err)
			return
		}
		nc := r.frontierContent().clone()
		for _, w := range writeSets[o.A] {
			nc.apply(w)
		}
		bookkeeping(nc, c.Identifier(), data)
		r.stack = append(r.stack, c.Identifier())
		r.versions = append(r.versions, nc)
	case "S": // commit on a stale parent: B levels below the frontier
		parent := r.stack[len(r.stack)-1-o.B]
		tx, _ := newTx(parent, o.A, 7)
		before := rawDump(x.mgr)
		beforeFrontier := db.GetFrontierIdentifier(x.mgr.Frontier())
		err := x.mgr.Add(tx)
		after := rawDump(x.mgr)
		if x.ldb && before != after {
			x.fail("stale-parent-commit-changes-store", "commit on stale parent %v (frontier %v) changed the store (err=%v)", parent, r.frontier(), err)
		}
		if f := db.GetFrontierIdentifier(x.mgr.Frontier()); f != beforeFrontier {
			x.fail("stale-parent-commit-moves-frontier", "commit on stale parent %v moved the frontier from %v to %v (err=%v)", parent, beforeFrontier, f, err)
		}
	case "Z": // commit on a parent that no longer exists (popped)
		parent := r.popped[o.B]
		tx, _ := newTx(parent, o.A, 9)
		before := rawDump(x.mgr)
		err := x.mgr.Add(tx)
		if x.ldb && before != rawDump(x.mgr) {
			x.fail("popped-parent-commit-changes-store", "commit on popped parent %v changed the store (err=%v)", parent, err)
		}
		if err == nil && db.GetFrontierIdentifier(x.mgr.Frontier()) != r.frontier() {
			x.fail("popped-parent-commit-moves-frontier", "commit on popped parent moved the frontier")
		}
	case "P":
		if err := x.mgr.Pop(); err != nil {
			x.fail("pop-fails", "pop failed: %v", err)
			return
		}
		r.popped = append(r.popped, r.frontier())
		r.stack = r.stack[:len(r.stack)-1]
		r.versions = r.versions[:len(r.versions)-1]
	case "V":
		id := r.stack[o.A]
		h := x.mgr.Get(id)
		if h == nil {
			x.fail("view-missing", "no view for existing commit %v", id)
			return
		}
		c := r.versions[o.A]
		r.views = append(r.views, &refView{root: c.clone(), desc: fmt.Sprintf("view@%d opened at frontier %d", id.Height, r.frontier().Height), handle: h})
	case "G":
		id := r.popped[o.A]
		// the same identifier may have been re-created by an identical commit after the pop
		for i, s := range r.stack {
			if s == id {
				h := x.mgr.Get(id)
				if h == nil {
					x.fail("view-missing", "no view for re-created commit %v", id)
					return
				}
				c := r.versions[i]
				r.views = append(r.views, &refView{root: c.clone(), desc: fmt.Sprintf("view@re-created %d", id.Height), handle: h})
				return
			}
		}
		if h := x.mgr.Get(id); h != nil {
			x.fail("view-of-popped-commit", "a view is served for rolled-back commit %v", id)
		}
	case "F":
		h := x.mgr.Frontier()
		c := r.frontierContent()
		r.views = append(r.views, &refView{root: c.clone(), desc: fmt.Sprintf("frontier@%d", r.frontier().Height), handle: h})
	case "N":
		v := r.views[o.A]
		h := v.handle.Snapshot()
		r.views = append(r.views, &refView{parent: v, desc: "snapshot of " + v.desc, handle: h})
	case "U":
		v := r.views[o.A]
		p := subPrefixes[o.B]
		h := v.handle.Subset(p).Snapshot()
		r.views = append(r.views, &refView{parent: v, sub: p, desc: fmt.Sprintf("snapshot of subset %x of %s", p, v.desc), handle: h})
	case "W":
		v := r.views[o.A]
		w := viewWrites[o.B]
		if p := v.prefix(); len(p) > 0 { // same logical key, addressed relative to the subset
			w = write{Key: w.Key[len(p):], Val: w.Val}
		}
		var err error
		if w.Val == nil {
			err = v.handle.Delete(w.Key)
		} else {
			err = v.handle.Put(w.Key, w.Val)
		}
		if err != nil {
			x.fail("view-write-fails", "write through %s failed: %v", v.desc, err)
			return
		}
		v.own = append(v.own, w)
	}
}

var scanPrefixes = [][]byte{nil, {0x10}, {0x10, 0xff}, {0x10, 0xff, 0x12}, {0x20}, {0x00}, {0x01}, {0x02}, {0x30}}

func (x *run) checkViews(after Op) (reads int) {
	r := x.ref
	// manager-level
	if f := db.GetFrontierIdentifier(x.mgr.Frontier()); f != r.frontier() {
		x.fail("frontier-wrong", "after %v: manager frontier %v, reference %v", after, f, r.frontier())
	}
	for _, v := range r.views {
		cur := v.cur()
		// point lookups over the key universe plus all bookkeeping keys the reference knows
		universe := map[string]bool{}
		for _, k := range keys {
			universe[string(k)] = true
		}
		for k := range cur {
			universe[k] = true
		}
		for _, c := range r.versions {
			for k := range c {
				universe[k] = true
			}
		}
		full := universe
		if p := v.prefix(); len(p) > 0 {
			universe = map[string]bool{}
			for k := range restrictKeys(full, p) {
				universe[k] = true
			}
			for k := range cur {
				universe[k] = true
			}
		}
		reads += x.checkSubsets(after, v, cur, universe)
		for k := range universe {
			reads++
			want, present := cur[k]
			got, err := v.handle.Get([]byte(k))
			has, herr := v.handle.Has([]byte(k))
			if herr != nil {
				x.fail("has-error", "after %v: %s Has(%x) error %v", after, v.desc, k, herr)
			}
			if present {
				if err != nil || !bytes.Equal(got, want) {
					x.fail("get-wrong", "after %v: %s Get(%x) = %x,%v want %x", after, v.desc, k, got, err, want)
				}
				if !has {
					x.fail("has-wrong", "after %v: %s Has(%x) = false for a present key (value %x)", after, v.desc, k, want)
				}
			} else {
				if err != leveldb.ErrNotFound {
					x.fail("get-wrong", "after %v: %s Get(%x) = %x,%v want not-found", after, v.desc, k, got, err)
				}
				if has {
					x.fail("has-wrong", "after %v: %s Has(%x) = true for an absent key", after, v.desc, k)
				}
			}
		}
		for _, p := range scanPrefixes {
			reads++
			var wk []string
			for k := range cur {
				if bytes.HasPrefix([]byte(k), p) {
					wk = append(wk, k)
				}
			}
			sort.Strings(wk) // byte order of the raw keys
			var want []string
			for _, k := range wk {
				want = append(want, fmt.Sprintf("%x=%x", k, cur[k]))
			}
			var got []string
			it := v.handle.NewIterator(p)
			var prev []byte
			ordered := true
			for it.Next() {
				val := it.Value()
				if val == nil {
					continue // the repository's tombstone convention for iterators
				}
				if prev != nil && bytes.Compare(prev, it.Key()) >= 0 {
					ordered = false
				}
				prev = append([]byte{}, it.Key()...)
				got = append(got, fmt.Sprintf("%x=%x", it.Key(), val))
			}
			it.Release()
			if !ordered {
				x.fail("scan-unordered", "after %v: %s scan(%x) not in strictly increasing key order: %v", after, v.desc, p, got)
			}
			if strings.Join(got, ",") != strings.Join(want, ",") {
				emptyOnly := onlyEmptyValuesMissing(got, want)
				key := "scan-wrong"
				if emptyOnly {
					key = "scan-drops-empty-values"
				}
				x.fail(key, "after %v: %s scan(%x) = %v want %v", after, v.desc, p, got, want)
			}
		}
		// change set replays to exactly the writes made through the view
		ch, err := v.handle.Changes()
		if err != nil {
			x.fail("changes-error", "after %v: %s Changes() error %v", after, v.desc, err)
			continue
		}
		replayed := v.base()
		rp := &replayer{c: replayed}
		if err := ch.Replay(rp); err != nil {
			x.fail("changes-error", "replay error %v", err)
		}
		if replayed.digest() != cur.digest() {
			x.fail("changes-wrong", "after %v: %s Changes() replays to %v, want %v (own writes %v)", after, v.desc, replayed, cur, v.own)
		}
		reads++
	}
	return
}

func restrictKeys(u map[string]bool, p []byte) map[string]bool {
	o := map[string]bool{}
	for k := range u {
		if bytes.HasPrefix([]byte(k), p) {
			o[k[len(p):]] = true
		}
	}
	return o
}

// checkSubsets reads the view through Subset(p) for every subset prefix: point lookups and existence tests of every key of
// the universe below p (addressed relative to p, so the key p itself becomes the zero-length key), ordered scans with the
// remaining prefixes, and the change set restricted to p.
func (x *run) checkSubsets(after Op, v *refView, cur content, universe map[string]bool) (reads int) {
	defer func() {
		for _, p := range subPrefixes {
			if !untouchedBeyondLen(p) {
				x.fail("subset-writes-into-the-callers-prefix-slice", "after %v: %s: reading through Subset(%x) wrote into the spare capacity of the prefix slice it was given (%x): two stores built over one prefix slice would overwrite each other's keys", after, v.desc, p, p[:cap(p)])
				for i := len(p); i < cap(p); i++ {
					p[:cap(p)][i] = 0xAA
				}
			}
		}
	}()
	for _, p := range subPrefixes {
		sub := v.handle.Subset(p)
		want := restrict(cur, p)
		for k := range restrictKeys(universe, p) {
			reads++
			w, present := want[k]
			got, err := sub.Get([]byte(k))
			has, herr := sub.Has([]byte(k))
			if herr != nil || has != present {
				x.fail("subset-has-wrong", "after %v: %s Subset(%x).Has(%x) = %v,%v want %v", after, v.desc, p, k, has, herr, present)
			}
			if present && (err != nil || !bytes.Equal(got, w)) {
				x.fail("subset-get-wrong", "after %v: %s Subset(%x).Get(%x) = %x,%v want %x", after, v.desc, p, k, got, err, w)
			}
			if !present && err != leveldb.ErrNotFound {
				x.fail("subset-get-wrong", "after %v: %s Subset(%x).Get(%x) = %x,%v want not-found", after, v.desc, p, k, got, err)
			}
		}
		for _, sp := range [][]byte{nil, {0xff}, {0x12}} {
			reads++
			var wk []string
			for k := range want {
				if bytes.HasPrefix([]byte(k), sp) {
					wk = append(wk, k)
				}
			}
			sort.Strings(wk)
			var ws, gs []string
			for _, k := range wk {
				ws = append(ws, fmt.Sprintf("%x=%x", k, want[k]))
			}
			it := sub.NewIterator(sp)
			for it.Next() {
				if it.Value() == nil {
					continue
				}
				gs = append(gs, fmt.Sprintf("%x=%x", it.Key(), it.Value()))
			}
			it.Release()
			if strings.Join(gs, ",") != strings.Join(ws, ",") {
				x.fail("subset-scan-wrong", "after %v: %s Subset(%x).scan(%x) = %v want %v", after, v.desc, p, sp, gs, ws)
			}
			// the same scan with the iterator opened first and consumed after point reads through a second Subset(p) handle of
			// the same view (two handles over one prefix slice, as two stores of one account have): an open iterator is not
			// disturbed by what other handles look up
			for _, probe := range [][]byte{{0xff, 0xff, 0xff}} {
				reads++
				it := sub.NewIterator(sp)
				other := v.handle.Subset(p)
				other.Has(probe)
				other.Get(probe)
				var gi []string
				for it.Next() {
					if it.Value() == nil {
						continue
					}
					gi = append(gi, fmt.Sprintf("%x=%x", it.Key(), it.Value()))
				}
				it.Release()
				if strings.Join(gi, ",") != strings.Join(ws, ",") {
					x.fail("subset-scan-disturbed-by-another-handle", "after %v: %s Subset(%x).scan(%x) opened, then Subset(%x).Has/Get(%x) through a second handle, then consumed = %v want %v", after, v.desc, p, sp, p, probe, gi, ws)
				}
			}
		}
		// the change set of the subset: the view's own writes below p, keys relative to p
		ch, err := sub.Changes()
		if err != nil {
			x.fail("subset-changes-error", "after %v: %s Subset(%x).Changes() error %v", after, v.desc, p, err)
			continue
		}
		replayed := restrict(v.base(), p)
		if err := ch.Replay(&replayer{c: replayed}); err != nil {
			x.fail("subset-changes-error", "replay error %v", err)
		}
		if replayed.digest() != want.digest() {
			x.fail("subset-changes-wrong", "after %v: %s Subset(%x).Changes() replays to %v, want %v", after, v.desc, p, replayed, want)
		}
		reads++
		// a transient Subset(p).Snapshot() (the composition the node uses for account and contract stores): writes made
		// through it stay in its own overlay, so it can be written, read back completely and dropped without changing
		// the state under exploration
		for _, tw := range [][]write{{{kNil, vY}}, {{[]byte{0xff}, nil}, {kNil, vE}}} {
			snap := sub.Snapshot()
			exp := want.clone()
			for _, w := range tw {
				var err error
				if w.Val == nil {
					err = snap.Delete(w.Key)
				} else {
					err = snap.Put(w.Key, w.Val)
				}
				if err != nil {
					x.fail("subset-snapshot-write-fails", "after %v: %s Subset(%x).Snapshot() write %x failed: %v", after, v.desc, p, w.Key, err)
				}
				exp.apply(w)
			}
			for k := range restrictKeys(universe, p) {
				reads++
				w, present := exp[k]
				got, err := snap.Get([]byte(k))
				has, _ := snap.Has([]byte(k))
				if has != present || (present && (err != nil || !bytes.Equal(got, w))) || (!present && err != leveldb.ErrNotFound) {
					x.fail("subset-snapshot-get-wrong", "after %v: %s Subset(%x).Snapshot() after writes %v: Get(%x) = %x,%v Has = %v, want present=%v %x", after, v.desc, p, tw, k, got, err, has, present, w)
				}
			}
			var wk, ws, gs []string
			for k := range exp {
				wk = append(wk, k)
			}
			sort.Strings(wk)
			for _, k := range wk {
				ws = append(ws, fmt.Sprintf("%x=%x", k, exp[k]))
			}
			it := snap.NewIterator(nil)
			for it.Next() {
				if it.Value() == nil {
					continue
				}
				gs = append(gs, fmt.Sprintf("%x=%x", it.Key(), it.Value()))
			}
			it.Release()
			reads++
			if strings.Join(gs, ",") != strings.Join(ws, ",") {
				x.fail("subset-snapshot-scan-wrong", "after %v: %s Subset(%x).Snapshot() after writes %v: scan = %v want %v", after, v.desc, p, tw, gs, ws)
			}
			ch, err := snap.Changes()
			if err == nil {
				replayed := want.clone()
				ch.Replay(&replayer{c: replayed})
				if replayed.digest() != exp.digest() {
					x.fail("subset-snapshot-changes-wrong", "after %v: %s Subset(%x).Snapshot() Changes() replays to %v, want %v", after, v.desc, p, replayed, exp)
				}
			} else {
				x.fail("subset-snapshot-changes-error", "after %v: %v", after, err)
			}
		}
	}
	return
}

func onlyEmptyValuesMissing(got, want []string) bool {
	g := map[string]bool{}
	for _, s := range got {
		g[s] = true
	}
	w := map[string]bool{}
	for _, s := range want {
		w[s] = true
	}
	for s := range g {
		if !w[s] {
			return false
		}
	}
	missing := 0
	for s := range w {
		if !g[s] {
			if !strings.HasSuffix(s, "=") {
				return false
			}
			missing++
		}
	}
	return missing > 0
}

type replayer struct{ c content }

func (r *replayer) Put(key []byte, value []byte) { r.c[string(key)] = append([]byte{}, value...) }
func (r *replayer) Delete(key []byte)            { delete(r.c, string(key)) }

// stateKey is the exact canonical state: raw store bytes (tombstones included), cache overlays, reference stack and the
// open views with their expected contents. Two op sequences with the same key have the same futures.
func (x *run) stateKey() string {
	h := sha256.New()
	fmt.Fprintf(h, "raw:%s|", rawDump(x.mgr))
	if x.ldb {
		for _, s := range db.VerifCacheDump(x.mgr) {
			fmt.Fprintf(h, "c:%s|", s)
		}
	}
	for i, id := range x.ref.stack {
		fmt.Fprintf(h, "s:%v:%s|", id, x.ref.versions[i].digest())
	}
	for _, id := range x.ref.popped {
		fmt.Fprintf(h, "p:%v|", id)
	}
	for _, v := range x.ref.views {
		pi := -1
		for i, o := range x.ref.views {
			if o == v.parent {
				pi = i
			}
		}
		fmt.Fprintf(h, "v:%s:%d:%s:%s:%v|", v.desc, pi, v.base().digest(), v.cur().digest(), v.own)
	}
	return hex.EncodeToString(h.Sum(nil))[:24]
}

type bounds struct {
	nsub     int // number of subset prefixes over which Subset(p).Snapshot() views are opened
	nws      int // number of commit write sets used
	depth    int
	maxStack int
	maxViews int
	maxViewW int
}

func enabled(r *ref, b bounds) []Op {
	var out []Op
	h := len(r.stack) - 1 // number of commits
	if h < b.maxStack {
		for ws := 0; ws < b.nws; ws++ {
			out = append(out, Op{K: "C", A: quickOrder[ws]})
		}
	}
	if h >= 1 {
		out = append(out, Op{K: "P"})
		out = append(out, Op{K: "S", A: 0, B: 1})
		out = append(out, Op{K: "S", A: 4, B: 1})
		if h >= 2 {
			out = append(out, Op{K: "S", A: 1, B: 2})
		}
	}
	if n := len(r.popped); n > 0 && !onStack(r, r.popped[n-1]) {
		out = append(out, Op{K: "Z", A: 1, B: n - 1})
	}
	if len(r.views) < b.maxViews {
		for i := 1; i <= h; i++ {
			out = append(out, Op{K: "V", A: i})
		}
		out = append(out, Op{K: "F"})
		if len(r.popped) > 0 {
			out = append(out, Op{K: "G", A: len(r.popped) - 1})
		}
		for i := range r.views {
			out = append(out, Op{K: "N", A: i})
		}
		for i := range r.views {
			for sp := 0; sp < b.nsub; sp++ {
				out = append(out, Op{K: "U", A: i, B: sp})
			}
		}
	}
	nw := 0
	for _, v := range r.views {
		nw += len(v.own)
	}
	if nw < b.maxViewW {
		for i, v := range r.views {
			for w := range viewWrites {
				if v.sub != nil && !bytes.HasPrefix(viewWrites[w].Key, v.prefix()) {
					continue // that key does not exist below the subset
				}
				out = append(out, Op{K: "W", A: i, B: w})
			}
		}
	}
	return out
}

// quickOrder lists the write sets so that a prefix of it is still diverse (put, multi-put, empty value + delete, overwrite).
var quickOrder = []int{0, 1, 3, 4, 2, 5}

func onStack(r *ref, id types.HashHeight) bool {
	for _, s := range r.stack {
		if s == id {
			return true
		}
	}
	return false
}

func newRun(c *xs.Ctx, ldb bool) *run {
	x := &run{ldb: ldb, ref: newRef()}
	if ldb {
		x.mgr = db.NewLevelDBManager(c.TempDir())
	} else {
		x.mgr = db.NewMemDBManager(db.NewMemDB())
	}
	return x
}

func (x *run) close() {
	loc := x.mgr.Location()
	x.mgr.Stop()
	if x.ldb {
		removeAll(loc)
	}
}

// execute replays path on a fresh manager; checks after every op if checkAll, else only after the last one.
func execute(c *xs.Ctx, ldb bool, path []Op, checkAll bool) (x *run, reads int) {
	x = newRun(c, ldb)
	for i, o := range path {
		func() {
			defer func() {
				if r := recover(); r != nil {
					x.fail("panic", "op %v panicked: %v", o, r)
				}
			}()
			x.apply(o)
			if checkAll || i == len(path)-1 {
				reads += x.checkViews(o)
			}
		}()
		if x.errKey != "" {
			break
		}
	}
	return
}

func init() {
	xs.Register(&xs.Check{
		ID:    "C07",
		Level: "model_checking",
		Shards: func(tier string) int {
			return 16
		},
		Budget: func(tier string) time.Duration {
			if tier == "thorough" {
				return 20 * time.Minute
			}
			return 240 * time.Second
		},
		Assumptions: []string{
			"keys {zero-length, k, ka, kab, m} with shared prefixes, values {x, y, empty}, deletions and re-creations; 6 commit write sets, 3 view writes; every view is also read through Subset(p) and through a written Subset(p).Snapshot() for p in {k, ka}",
			"scans are normalised by dropping entries whose iterator value is nil (the repository's tombstone convention)",
			"concurrency part: scheduling points at every mutex acquisition of common/db and before every leveldb write of Add/Pop; weak-memory effects are out of scope",
		},
		Run: runC07,
		Finish: func(tier string, m *xs.Result, ev *xs.Evidence) {
			ev.Coverage["states"] = m.Counters["states_ldb"] + m.Counters["states_mem"] + m.Counters["sched_states"]
			ev.Coverage["transitions"] = m.Counters["transitions"] + m.Counters["sched_points"]
			ev.Coverage["traces_validated_against_impl"] = m.Counters["transitions"] + m.Counters["sched_executions"]
		},
	})
}

func runC07(c *xs.Ctx, r *xs.Result) {
	if c.Replay != nil {
		var rep struct {
			Manager  string `json:"manager"`
			Ops      []Op   `json:"ops"`
			Schedule []int  `json:"schedule"`
			Scenario string `json:"scenario"`
		}
		if err := json.Unmarshal(c.Replay, &rep); err != nil {
			panic(err)
		}
		if rep.Scenario != "" {
			replaySched(c, r, rep.Scenario, rep.Schedule)
			return
		}
		x, _ := execute(c, rep.Manager == "ldb", rep.Ops, true)
		report(r, rep.Manager, rep.Ops, x)
		x.close()
		r.Count("states_ldb", 1)
		r.Count("transitions", int64(len(rep.Ops)))
		return
	}
	b := bounds{nsub: 0, nws: 3, depth: 6, maxStack: 3, maxViews: 2, maxViewW: 1}
	if c.Thorough() {
		b = bounds{nsub: 2, nws: 6, depth: 7, maxStack: 3, maxViews: 2, maxViewW: 2}
	}
	// the schedule exploration is cheap and goes first; the sequential search takes the rest of the budget
	runSched(c, r)
	if c.Shard == 0 {
		runRacePass(c, r) // the same writer / reader bodies free-running under the race detector (auxiliary: reports only)
	}
	longHistories(c, r)
	bfs(c, r, b)
}

func report(r *xs.Result, mgr string, path []Op, x *run) {
	if x.errKey == "" {
		return
	}
	r.Violate("C07:"+mgr+":"+x.errKey, fmt.Sprintf("%s manager, ops [%s]: %s", mgr, opsString(path), strings.Join(x.errs, "; ")),
		map[string]interface{}{"manager": mgr, "ops": path})
}

// bfs explores all op sequences up to the depth bound with exact-state deduplication, level by level and for both
// managers in step (level d of the leveldb-backed manager, level d of the in-memory one, then d+1): when the budget ends
// inside level d, everything up to depth d-1 is complete for both. The level-1 subtrees are split over the shards; every
// shard keeps its own seen set (a state reached in two shards is expanded twice, never missed).
type item struct{ path []Op }

type search struct {
	name     string
	ldb      bool
	seen     map[string]bool
	frontier []item
}

func newSearch(c *xs.Ctx, ldb bool) *search {
	s := &search{name: "mem", ldb: ldb, seen: map[string]bool{}, frontier: []item{{nil}}}
	if ldb {
		s.name = "ldb"
	}
	x0, _ := execute(c, ldb, nil, true)
	s.seen[x0.stateKey()] = true
	x0.close()
	return s
}

const splitDepth = 2 // levels 0..splitDepth-1 are explored identically by every shard (counted by shard 0 only)

// level expands the frontier by one operation; false = the deadline passed inside this level
func (s *search) level(c *xs.Ctx, r *xs.Result, b bounds, depth int) bool {
	name, ldb := s.name, s.ldb
	counting := depth >= splitDepth || c.Shard == 0
	var nxt []item
	for _, it := range s.frontier {
		if c.Expired() {
			return false
		}
		xp, _ := execute(c, ldb, it.path, false)
		succ := enabled(xp.ref, b)
		xp.close()
		for _, o := range succ {
			path := append(append([]Op{}, it.path...), o)
			x, reads := execute(c, ldb, path, false)
			if counting {
				r.Count("transitions", 1)
				r.Count("reads_compared", int64(reads))
				r.Add("op_kinds", o.K)
			}
			if x.errKey != "" {
				report(r, name, path, x)
				if counting {
					r.Count("violating_transitions", 1)
				}
			} else {
				k := x.stateKey()
				if !s.seen[k] {
					s.seen[k] = true
					if counting {
						r.Count("states_"+name, 1)
					}
					nxt = append(nxt, item{path})
					if depth+1 == b.depth {
						r.Sample(map[string]string{"manager": name, "ops": opsString(path)})
					}
				}
			}
			x.close()
		}
	}
	s.frontier = nxt
	if depth+1 == splitDepth {
		var mine []item
		for i, it := range s.frontier {
			if c.Mine(i) {
				mine = append(mine, it)
			}
		}
		s.frontier = mine
	}
	if depth+1 == b.depth {
		r.Count("shards_completed_depth_bound_"+name, 1)
	}
	return true
}

func bfs(c *xs.Ctx, r *xs.Result, b bounds) {
	searches := []*search{newSearch(c, true), newSearch(c, false)}
	for depth := 0; depth < b.depth; depth++ {
		for _, s := range searches {
			if len(s.frontier) == 0 {
				continue
			}
			if !s.level(c, r, b, depth) {
				r.Incomplete = true
				r.Note("C07 %s: deadline inside level %d of %d (sequences of up to %d operations are complete for both managers in this shard)", s.name, depth+1, b.depth, depth)
				r.Count(fmt.Sprintf("shards_stopped_inside_level_%d", depth+1), 1)
				return
			}
		}
	}
}

// Part A2 — long histories: the leveldb-backed manager keeps historical-view overlays in two caches, the second one for
// views at least 360 commits behind the frontier. The bounded search above cannot reach that distance, so a family of
// long histories is enumerated separately: N commits, views opened at every X of a set straddling the 360 boundary
// (each subset of two of them warmed before the rollback), k rollbacks, k' different commits, views reopened.
func longHistories(c *xs.Ctx, r *xs.Result) {
	const N = 366
	xsSet := []int{1, 2, N - 361, N - 360, N - 359, N - 3} // far (second cache), at the boundary, near
	idx := 0
	for _, pops := range []int{1, 2, 3} {
		for _, recommit := range []int{0, 1, 2} { // how many new commits after the rollback (0: just rolled back)
			for wi := 0; wi < len(xsSet); wi++ {
				for wj := wi; wj < len(xsSet); wj++ {
					idx++
					if !c.Mine(idx) {
						continue
					}
					if c.Expired() {
						r.Incomplete = true
						return
					}
					var path []Op
					for i := 0; i < N; i++ {
						path = append(path, Op{K: "C", A: quickOrder[i%4]})
					}
					path = append(path, Op{K: "V", A: xsSet[wi]}, Op{K: "V", A: xsSet[wj]})
					for i := 0; i < pops; i++ {
						path = append(path, Op{K: "P"})
					}
					for i := 0; i < recommit; i++ {
						path = append(path, Op{K: "C", A: []int{2, 5}[i%2]}) // write sets the replaced commits did not use at that height
					}
					// reopen every view of the set that still exists and compare
					for _, x := range xsSet {
						if x <= N-pops {
							path = append(path, Op{K: "V", A: x})
						}
					}
					x := newRun(c, true)
					for i, o := range path {
						x.apply(o)
						if i >= N {
							r.Count("reads_compared", int64(x.checkViews(o)))
							// keep at most the two warm views + the latest reopened one open
							if len(x.ref.views) > 3 {
								x.ref.views = append(x.ref.views[:2], x.ref.views[len(x.ref.views)-1])
							}
						}
						if x.errKey != "" {
							break
						}
					}
					r.Count("transitions", int64(len(path)))
					r.Count("long_histories", 1)
					if x.errKey != "" {
						tail := path[N:]
						r.Violate("C07:ldb:long-history:"+x.errKey, fmt.Sprintf("ldb manager, %d commits then [%s]: %s", N, opsString(tail), strings.Join(x.errs, "; ")),
							map[string]interface{}{"manager": "ldb", "ops": path})
					}
					x.close()
				}
			}
		}
	}
}
