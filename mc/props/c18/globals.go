package c18

import (
	"time"

	"github.com/zenon-network/go-zenon/consensus"
	"github.com/zenon-network/go-zenon/vm/constants"
)

// setGlobals fixes the process-global configuration of the worker process (each worker is a fresh process).
func setGlobals() {
	consensus.EpochDuration = time.Hour // as the repository's own embedded tests: several epochs within a few hundred momentums
	// sentinels can be revoked from 2 h after their registration on (repository: 27 days locked, 3 days revocable), so that the
	// embedded chain, which spans a dozen hours, can contain revoked registry entries next to active ones
	constants.SentinelLockTimeWindow = 2 * 3600
	constants.SentinelRevokeTimeWindow = 1000 * 3600
}
