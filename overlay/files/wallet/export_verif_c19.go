//go:build verif

package wallet

// VerifKeyStoreFromEntropy exposes keyStoreFromEntropy (the only constructor of a KeyStore in the package; nothing in the
// repository exports a way to create a key store from entropy). Exported wrapper only, no logic.
func VerifKeyStoreFromEntropy(entropy []byte) (*KeyStore, error) { return keyStoreFromEntropy(entropy) }
