// Package c03 — only valid account blocks are ever accepted.
//
// From each state of a small set of reachable ledger states (confirmed / pooled predecessors, pending sends to users and
// to embedded contracts, contract inboxes with two entries, first block of an account) one valid candidate of every block
// type is built the way the real producers build it, then the closure of that candidate under all single-field (quick)
// and all two-field (thorough) mutations over every field of nom.AccountBlock, each in three sealing modes (untouched;
// hash recomputed and re-signed by the account owner; hash recomputed and signed by a foreign key). Every candidate goes
// through the real acceptance path (protocol.ChainBridge.AddAccountBlocks = vm.Supervisor.ApplyBlock +
// chain.AddAccountBlockTransaction) on a scratch follower in that state. Oracle: accepted ⇒ the independent validity
// predicate of model.go holds (not the converse).
package c03

import (
	"bytes"
	"encoding/json"
	"fmt"
	"sort"
	"strings"
	"time"

	"github.com/zenon-network/go-zenon/chain"
	"github.com/zenon-network/go-zenon/chain/nom"
	"github.com/zenon-network/go-zenon/common/types"
	"github.com/zenon-network/go-zenon/verifier"
	"github.com/zenon-network/go-zenon/vm/constants"

	"verifmc/internal/ops"
	"verifmc/internal/vnode"
	"verifmc/internal/xs"
	"verifmc/props/c14"
)

// ---------------------------------------------------------------------------------------------------------------------
// states

type state struct {
	Name   string
	Height uint64
	pool   []*nom.AccountBlock
	led    *ledger
	cands  []*cand
	// the block the producer path generates per contract account in this state
	expected map[types.Address]*nom.AccountBlock
}

func hp(h types.Hash) *types.Hash { return &h }

func gen(n *vnode.Node, t *nom.AccountBlock) *nom.AccountBlock {
	tx, err := n.Generate(t)
	must(err)
	return vnode.CloneBlock(tx.Block)
}

func send(from, to int, zts types.ZenonTokenStandard, amount int64) *nom.AccountBlock {
	return &nom.AccountBlock{BlockType: nom.BlockTypeUserSend, Address: addr(from), ToAddress: addr(to), TokenStandard: zts, Amount: ops.Big(amount)}
}
func recv(who int, from types.Hash) *nom.AccountBlock {
	return &nom.AccountBlock{BlockType: nom.BlockTypeUserReceive, Address: addr(who), FromBlockHash: from}
}

func buildStates(c *xs.Ctx, w *world) []*state {
	znn := types.ZnnTokenStandard
	var out []*state
	mk := func(name string, height uint64, poolf func(n *vnode.Node) []*nom.AccountBlock, candf func(s *state, n *vnode.Node)) {
		s := &state{Name: name, Height: height, expected: map[types.Address]*nom.AccountBlock{}}
		spec := &stateSpec{Name: name, Height: height}
		// pool blocks are generated step by step on a scratch follower
		n := w.scratch(c, spec, nil)
		s.pool = poolf(n)
		n.Destroy()
		n = w.scratch(c, spec, s.pool)
		defer n.Destroy()
		// model
		s.led = newLedger(n.Detailed(1))
		for _, d := range w.chain[:height-1] {
			s.led.addMomentum(d)
		}
		for _, b := range s.pool {
			s.led.addBlock(vnode.CloneBlock(b), 0)
		}
		candf(s, n)
		// cross-check the model against the node (a disagreement is a harness bug, not a finding)
		for _, cd := range s.cands {
			a := cd.valid.Address
			got := n.Chain.GetFrontierAccountStore(a).Identifier()
			ch := s.led.chains[a]
			if uint64(len(ch)) != got.Height || (len(ch) > 0 && ch[len(ch)-1].b.Hash != got.Hash) {
				panic(fmt.Sprintf("state %s: model chain of %v (len %d) disagrees with the node's frontier %v", name, a, len(ch), got))
			}
			if cd.owner != nil {
				bal, err := n.Chain.GetFrontierAccountStore(a).GetBalance(znn)
				must(err)
				if mb := s.led.balanceAfter(a, got.Height, znn); mb.Cmp(bal) != 0 {
					panic(fmt.Sprintf("state %s: model balance of %v = %v, node says %v", name, a, mb, bal))
				}
			}
		}
		out = append(out, s)
	}
	addGossip := func(n *vnode.Node, b *nom.AccountBlock) *nom.AccountBlock {
		if err, pan := n.AddAccountBlocks([]*nom.AccountBlock{vnode.CloneBlock(b)}); err != nil || pan != nil {
			panic(fmt.Sprintf("pool block refused: %v %v", err, pan))
		}
		return b
	}
	// fills the common context of a candidate
	finish := func(s *state, cd *cand) *cand {
		cd.moms = map[uint64]types.Hash{}
		for h, ht := range s.led.momHeight {
			cd.moms[ht] = h
		}
		cd.frontier = s.led.frontier
		v := cd.valid
		first := v
		if len(v.DescendantBlocks) > 0 {
			first = v.DescendantBlocks[0]
		}
		ch := s.led.chains[v.Address]
		if first.Height >= 2 {
			pred := ch[first.Height-2]
			if pred.b.BlockType != nom.BlockTypeGenesisReceive {
				cd.predMA = pred.b.MomentumAcknowledged.Height
			}
			if first.Height >= 3 {
				cd.hGrandPredecessor = hp(ch[first.Height-3].b.Hash)
			}
			if pred.confirmedAt == 0 {
				if cl := s.led.confirmedLen(v.Address); cl > 0 {
					cd.hConfirmedFrontier = hp(ch[cl-1].b.Hash)
				}
			}
		}
		och := s.led.chains[addr(u3)]
		cd.hOtherFrontier = hp(och[len(och)-1].b.Hash)
		if cd.owner != nil {
			cd.balance = s.led.balanceAfter(v.Address, first.Height-1, znn)
		}
		for _, p := range s.pool {
			if p.BlockType == nom.BlockTypeUserSend && p.Address == addr(u3) {
				cd.hUnconfirmedSend = hp(p.Hash)
			}
		}
		s.cands = append(s.cands, cd)
		return cd
	}
	contractCand := func(s *state, n *vnode.Node, typ string, sendName string) *cand {
		ex, err := n.Sup.GenerateAutoReceive(vnode.CloneBlock(w.named[sendName]))
		must(err)
		b := vnode.CloneBlock(ex.Transaction.Block)
		if typ == tContractSend && len(b.DescendantBlocks) != 1 {
			panic("expected a refund descendant")
		}
		s.expected[b.Address] = vnode.CloneBlock(b)
		return finish(s, &cand{Type: typ, valid: b})
	}
	h := func(name string) *types.Hash { return hp(w.named[name].Hash) }

	// --- state A: height 3, every predecessor confirmed
	mk("A:confirmed-predecessors", 3, func(n *vnode.Node) []*nom.AccountBlock {
		return []*nom.AccountBlock{gen(n, send(u3, u2, znn, 11))}
	}, func(s *state, n *vnode.Node) {
		finish(s, &cand{Type: tUserSend, valid: gen(n, send(u1, u2, znn, 100)), owner: ops.Users[u1]})
		cd := finish(s, &cand{Type: tUserReceive, valid: gen(n, recv(u2, w.named["s1"].Hash)), owner: ops.Users[u2]})
		cd.hAlreadyReceived, cd.hOtherRecipient, cd.hSecondPending, cd.hReceiveBlock = h("s0"), h("s3"), h("s2"), h("r0")
		cd.hAlreadyReceivedZero = h("z0")
		cd = finish(s, &cand{Type: tUserFirst, valid: gen(n, recv(u6, w.named["t6"].Hash)), owner: ops.Users[u6]})
		cd.hOtherRecipient, cd.hReceiveBlock = h("s3"), h("r0")
		finish(s, &cand{Type: tUserCall, valid: gen(n, ops.Calls["fuse"](ops.Op{A: u4, B: u2, V: 10})), owner: ops.Users[u4]})
		cd = contractCand(s, n, tContractRecv, "c1")
		cd.hOtherRecipient, cd.hSecondPending, cd.hReceiveBlock = h("c2"), h("c1b"), h("r0")
		cd = contractCand(s, n, tContractSend, "c2")
	})
	// --- state B: height 3, every predecessor is an unconfirmed block in the pool
	mk("B:pooled-predecessors", 3, func(n *vnode.Node) []*nom.AccountBlock {
		var p []*nom.AccountBlock
		p = append(p, addGossip(n, gen(n, send(u3, u2, znn, 11))))
		p = append(p, addGossip(n, gen(n, send(u1, u4, znn, 1))))
		p = append(p, addGossip(n, gen(n, recv(u2, w.named["s2"].Hash))))
		p = append(p, addGossip(n, w.rc["c1"]))
		p = append(p, addGossip(n, w.rc["c2"]))
		return p
	}, func(s *state, n *vnode.Node) {
		finish(s, &cand{Type: tUserSend, valid: gen(n, send(u1, u2, znn, 100)), owner: ops.Users[u1]})
		cd := finish(s, &cand{Type: tUserReceive, valid: gen(n, recv(u2, w.named["s1"].Hash)), owner: ops.Users[u2]})
		cd.hAlreadyReceived, cd.hOtherRecipient, cd.hReceiveBlock = h("s2"), h("s3"), h("r0")
		cd.hAlreadyReceivedZero = h("z0")
		cd = contractCand(s, n, tContractRecv, "c1b")
		cd.hAlreadyReceived, cd.hOtherRecipient, cd.hReceiveBlock = h("c1"), h("c2b"), h("r0")
		cd = contractCand(s, n, tContractSend, "c2b")
	})
	// --- state C: height 2 (first momentum after genesis), predecessors are genesis blocks / first blocks
	mk("C:height-2", 2, func(n *vnode.Node) []*nom.AccountBlock {
		return []*nom.AccountBlock{gen(n, send(u3, u2, znn, 11))}
	}, func(s *state, n *vnode.Node) {
		finish(s, &cand{Type: tUserSend, valid: gen(n, send(u1, u2, znn, 100)), owner: ops.Users[u1]})
		cd := finish(s, &cand{Type: tUserReceive, valid: gen(n, recv(u2, w.named["s0"].Hash)), owner: ops.Users[u2]})
		cd.hOtherRecipient = h("t6")
		cd = contractCand(s, n, tContractRecv, "f6")
		cd.hOtherRecipient = h("s0")
	})
	// --- state D: height 5, contract chains with confirmed predecessors, a pending contract send (refund) to a user, the
	// momentum confirming the pending calls is not the frontier
	mk("D:height-5", 5, func(n *vnode.Node) []*nom.AccountBlock {
		return []*nom.AccountBlock{gen(n, send(u3, u2, znn, 11))}
	}, func(s *state, n *vnode.Node) {
		finish(s, &cand{Type: tUserSend, valid: gen(n, send(u1, u2, znn, 100)), owner: ops.Users[u1]})
		refund := w.rc["c2"].DescendantBlocks[0]
		who := keyFor(refund.ToAddress)
		cd := finish(s, &cand{Type: tUserReceive, valid: gen(n, &nom.AccountBlock{BlockType: nom.BlockTypeUserReceive, Address: who.Address, FromBlockHash: refund.Hash}), owner: who})
		cd.hOtherRecipient, cd.hReceiveBlock = h("s1"), h("r0")
		cd = contractCand(s, n, tContractRecv, "c3")
		cd.hAlreadyReceived, cd.hOtherRecipient, cd.hSecondPending, cd.hReceiveBlock = h("c1"), h("c4"), h("c3b"), h("r0")
		cd = contractCand(s, n, tContractSend, "c4")
	})
	return out
}

// ---------------------------------------------------------------------------------------------------------------------
// rejection reasons

var reasonTable = func() []error {
	return []error{
		verifier.ErrVerifierInternal,
		verifier.ErrABVersionMissing, verifier.ErrABVersionInvalid, verifier.ErrABChainIdentifierMissing, verifier.ErrABChainIdentifierMismatch,
		verifier.ErrABTypeInvalidExternal, verifier.ErrABTypeMissing, verifier.ErrABTypeMustNotBeGenesis, verifier.ErrABTypeUnsupported,
		verifier.ErrABTypeMustBeContract, verifier.ErrABTypeMustBeUser, verifier.ErrABMHeightMissing, verifier.ErrABPrevHeightExists,
		verifier.ErrABPrevHasCementedOnTop, verifier.ErrABPrevHashMissing, verifier.ErrABPrevHashMustBeZero, verifier.ErrABAmountNegative,
		verifier.ErrABAmountTooBig, verifier.ErrABAmountMustBeZero, verifier.ErrABZtsMissing, verifier.ErrABZtsMustBeZero,
		verifier.ErrABToAddressMustBeZero, verifier.ErrABHashMissing, verifier.ErrABHashInvalid, verifier.ErrABDataTooBig,
		verifier.ErrABPublicKeyWrongAddress, verifier.ErrABPublicKeyMissing, verifier.ErrABPublicKeyMustBeZero, verifier.ErrABSignatureInvalid,
		verifier.ErrABSignatureMissing, verifier.ErrABSignatureMustBeZero, verifier.ErrABPoWInvalid, verifier.ErrABDescendantMustBeZero,
		verifier.ErrABDescendantVerify, verifier.ErrABPreviousMissing, verifier.ErrABMAGap, verifier.ErrABMAMustBeTheSame,
		verifier.ErrABMAInvalidForAutoGenerated, verifier.ErrABMAMissing, verifier.ErrABMAMustNotBeZero, verifier.ErrABFromBlockHashMissing,
		verifier.ErrABFromBlockHashMustBeZero, verifier.ErrABFromBlockMissing, verifier.ErrABFromBlockAlreadyReceived,
		verifier.ErrABFromBlockReceiverMismatch, verifier.ErrABSequencerNothing, verifier.ErrABSequencerNotNext,
		// the verifier reuses the momentum errors for the account-block chain identifier
		verifier.ErrMChainIdentifierMissing, verifier.ErrMChainIdentifierMismatch,
	}
}()

var otherReasons = []error{
	constants.ErrVmRunPanic, constants.ErrInsufficientBalance, constants.ErrBlockPlasmaLimitReached, constants.ErrNotEnoughPlasma,
	constants.ErrNotEnoughTotalPlasma, constants.ErrContractMethodNotFound, chain.ErrFailedToAddAccountBlockTransaction,
	chain.ErrPlasmaRatioIsWorse, chain.ErrHashTieBreak,
}

func reasonOf(err error) string {
	s := err.Error()
	best := ""
	for _, e := range append(append([]error{}, reasonTable...), otherReasons...) {
		m := e.Error()
		// descendant errors wrap the inner reason: report the outer one, it is the distinct code path
		if strings.HasPrefix(s, m) && len(m) > len(best) {
			best = m
		}
	}
	if best != "" {
		return best
	}
	if len(s) > 48 {
		s = s[:48]
	}
	return "other: " + s
}

// ---------------------------------------------------------------------------------------------------------------------

type caseID struct {
	State    string     `json:"state"`
	Enforced bool       `json:"enforced"`
	Type     string     `json:"type"`
	Muts     []mutation `json:"muts"`
	Mode     int        `json:"mode"`
}

func (id caseID) key() string {
	var ms []string
	for _, m := range id.Muts {
		ms = append(ms, m.String())
	}
	if len(ms) == 0 {
		ms = []string{"unmodified"}
	}
	return fmt.Sprintf("C03:%s:%s:%s:accepted", id.Type, strings.Join(ms, "+"), modes[id.Mode])
}

type runner struct {
	c    *xs.Ctx
	r    *xs.Result
	w    *world
	st   *state
	enf  bool
	n    *vnode.Node
	dig  string
	used int
}

func (rn *runner) fresh() {
	if rn.n != nil {
		rn.n.Destroy()
	}
	rn.n = rn.w.scratch(rn.c, &stateSpec{Name: rn.st.Name, Height: rn.st.Height}, rn.st.pool)
	rn.dig = rn.n.PoolDigest()
	rn.used = 0
	rn.r.Count("scratch_nodes_built", 1)
}

func (rn *runner) close() {
	if rn.n != nil {
		rn.n.Destroy()
		rn.n = nil
	}
}

const rebuildEvery = 64

// submit runs one candidate through the acceptance path and applies the oracle.
func (rn *runner) submit(cd *cand, ms []mutation, mode int) {
	r := rn.r
	if rn.n == nil || rn.used >= rebuildEvery {
		rn.fresh()
	}
	rn.used++
	b := cd.build(ms, mode)
	judged := deepCopyKeepAmount(b) // the acceptance path may write into the block (plasma fields)
	err, pan := rn.n.AddAccountBlocks([]*nom.AccountBlock{b})
	r.Count("candidates", 1)
	r.Count("candidates:"+cd.Type, 1)
	id := caseID{rn.st.Name, rn.enf, cd.Type, ms, mode}
	switch {
	case pan != nil:
		r.Count("rejected", 1)
		r.Count("outcome:escaped-panic", 1)
		r.Add("rejection_reasons", "PANIC escaping AddAccountBlocks")
		r.Note("panic escaping AddAccountBlocks for %s in state %s: %v", id.key(), rn.st.Name, pan)
		rn.fresh()
		return
	case err != nil:
		r.Count("rejected", 1)
		reason := reasonOf(err)
		r.Count("reason:"+reason, 1)
		r.Add("rejection_reasons", reason)
		if reason == constants.ErrVmRunPanic.Error() && len(ms) == 1 {
			r.Add("vm_panic_single_mutations", cd.Type+":"+ms[0].String())
		}
		if d := rn.n.PoolDigest(); d != rn.dig {
			// a rejected block must not alter the pool; not part of C03's statement, so only recorded
			r.Count("rejected_but_pool_changed", 1)
			rn.fresh()
		}
		return
	}
	if rn.n.PoolDigest() == rn.dig {
		// nil error without insertion: stand-alone contract sends are skipped, known identifiers are deduplicated
		r.Count("ignored_without_insertion", 1)
		if len(ms) <= 1 {
			r.Add("ignored_single_mutations", cd.Type+":"+mutsString(ms)+":"+modes[mode])
		}
		return
	}
	r.Count("accepted", 1)
	r.Count("accepted:"+cd.Type, 1)
	r.Count("accepted:"+modes[mode], 1)
	if len(ms) > 0 {
		r.Count("accepted_mutated", 1)
		if len(ms) == 1 {
			r.Add("accepted_single_mutations", id.key())
		}
	}
	// "only if its hash matches its content": the block the node now holds at that height (acceptance may rewrite fields,
	// e.g. call data into its canonical encoding) is held under the hash of its own content, the hash it was submitted under
	var held *nom.AccountBlock
	for _, pb := range rn.n.PoolBlocks() {
		if pb.Address != judged.Address || pb.Height != judged.Height {
			continue
		}
		held = pb
		r.Count("held_blocks_rehashed", 1)
		if got := ownHash(pb); got != pb.Hash || pb.Hash != judged.Hash {
			r.Violate("C03:accepted-block-is-held-under-a-hash-that-is-not-the-hash-of-its-content", fmt.Sprintf("state %s, %s regime: candidate %s (%s, %s) submitted under hash %v is held as a block with Hash field %v whose content hashes to %v",
				rn.st.Name, regimeName(rn.enf), cd.Type, mutsString(ms), modes[mode], judged.Hash, pb.Hash, got), id)
			r.Count("accepted_invalid", 1)
			rn.fresh()
			return
		}
	}
	v := rn.st.led.valid(judged, rn.enf, rn.st.expected, tolerance{})
	if !v.ok && held != nil && types.IsEmbeddedAddress(judged.ToAddress) && !bytes.Equal(held.Data, judged.Data) {
		// a call whose data is another encoding of the same arguments (trailing bytes): the node rewrites Data into the
		// canonical encoding before it checks the hash, and holds the canonical block (verified above: held under the hash
		// of its content, which is the hash the candidate came with). What was accepted is that block: judge it.
		canon := deepCopyKeepAmount(judged)
		canon.Data = append([]byte{}, held.Data...)
		if v2 := rn.st.led.valid(canon, rn.enf, rn.st.expected, tolerance{}); v2.ok {
			r.Count("accepted_as_the_canonical_call", 1)
			v = v2
		}
	}
	if !v.ok {
		key := rn.rootCause(judged, id, v)
		what := fmt.Sprintf("state %s, %s regime: candidate %s (%s, %s) was accepted into the pool but the statement's predicate fails: %s",
			rn.st.Name, regimeName(rn.enf), cd.Type, mutsString(ms), modes[mode], v.clause)
		if rc, ok := rootCauseText[key]; ok {
			what = rc + " First instance found: " + what
		}
		r.Violate(key, what, id)
		r.Count("accepted_invalid", 1)
	} else {
		r.Count("accepted_and_predicate_holds", 1)
	}
	rn.fresh()
}

func deepCopyKeepAmount(b *nom.AccountBlock) *nom.AccountBlock {
	c := vnode.CloneBlock(b)
	copyAmounts(c, b)
	return c
}

// the wire form cannot carry nil or negative amounts; keep them on the judged copy
func copyAmounts(dst, src *nom.AccountBlock) {
	if src.Amount == nil {
		dst.Amount = nil
	} else if src.Amount.Sign() < 0 {
		dst.Amount.Set(src.Amount)
	}
	for i := range src.DescendantBlocks {
		copyAmounts(dst.DescendantBlocks[i], src.DescendantBlocks[i])
	}
}

func regimeName(enf bool) string {
	if enf {
		return "receiver-enforced"
	}
	return "legacy"
}

func mutsString(ms []mutation) string {
	if len(ms) == 0 {
		return "unmodified"
	}
	var s []string
	for _, m := range ms {
		s = append(s, m.String())
	}
	return strings.Join(s, " + ")
}

// Keys of the confirmed root causes (one key each; see the package's FINDINGS in the final report of the check's author).
const (
	// RC1: nothing recomputes the hash of a descendant (contract send) block and the regenerated contract receive is compared by
	// Hash/ChangesHash only, while the parent hash covers just the descendants' Hash fields: every hashed field of a
	// descendant (ToAddress, Amount, TokenStandard, Data, ...) can be altered with the descendant's Hash left untouched.
	keyRC1 = "C03:contract-send:any-hashed-field-of-descendant(ToAddress|Amount|TokenStandard|Data|...):untouched:accepted"
	// RC2: fields outside the hash of a contract block are neither compared with the regenerated block nor normalised.
	keyRC2 = "C03:contract-receive:field-outside-hash(BasePlasma|TotalPlasma|descendant.ChangesHash|descendant.PublicKey|descendant.Signature):any-mode:accepted"
	// RC3: legacy regime only — fromHash() never checks that the referenced block is a send block.
	keyRC3 = "C03:user-receive:FromBlockHash=a-receive-block:resigned-by-owner:accepted[legacy-regime]"
)

var rootCauseText = map[string]string{
	keyRC1: "ROOT CAUSE: the receiver never recomputes the hash of a descendant (contract-send) block: verifier.descendantBlocks runs only the stateless checks, vm.applyBlock compares the regenerated contract receive by Hash and ChangesHash only, and the parent's hash covers just the descendants' Hash fields. Any hashed field of a descendant (ToAddress, Amount, TokenStandard, Data, Address, FusedPlasma, Nonce, nested descendants) can be altered while its Hash is left untouched; the altered block is stored, deduplicates the honest one, gets confirmed and feeds the recipient's mailbox.",
	keyRC2: "ROOT CAUSE: fields outside the hash of a contract block (BasePlasma, TotalPlasma; ChangesHash, PublicKey, Signature of descendants) are neither compared with the regenerated block nor cleared, so a contract block that is not the one the receiver reproduces (and a contract send carrying a key) is accepted and stored as sent.",
	keyRC3: "ROOT CAUSE (legacy regime only): accountBlockVerifier.fromHash never checks that the referenced block is a send block; below ReceiverMismatchEnforcementHeight a receive block may 'receive' a receive block.",
}

// rootCause maps an accepted-but-invalid candidate to its violation key: the single key of a confirmed root cause if the
// candidate violates nothing but that root cause's clauses, otherwise the specific field/value/mode key.
func (rn *runner) rootCause(b *nom.AccountBlock, id caseID, v verdict) string {
	led := rn.st.led
	try := func(t tolerance) bool { return led.valid(b, rn.enf, rn.st.expected, t).ok }
	switch {
	case try(tolerance{receiveOfNonSend: true}):
		return keyRC3
	case try(tolerance{unhashedContractFld: true}):
		return keyRC2
	case try(tolerance{descendantContent: true}):
		return keyRC1
	case try(tolerance{descendantContent: true, unhashedContractFld: true}):
		return keyRC1 // both root causes at once (two-field mutations)
	}
	return id.key()
}

func setRegime(enforced bool) {
	if enforced {
		verifier.ReceiverMismatchEnforcementHeight = 0
	} else {
		verifier.ReceiverMismatchEnforcementHeight = 1 << 40
	}
}

func run(c *xs.Ctx, r *xs.Result) {
	if c.Replay != nil {
		var rc reorgCase
		if err := json.Unmarshal(c.Replay, &rc); err == nil && rc.Part == "reorg" {
			reorgPart(c, r, &rc)
			return
		}
		var sr struct {
			Part     string `json:"part"`
			Scenario string `json:"scenario"`
			Schedule []int  `json:"schedule"`
		}
		if err := json.Unmarshal(c.Replay, &sr); err == nil && sr.Part == "sched" {
			c14.ReplayScenario(c, r, sr.Scenario, "C03", sr.Schedule)
			return
		}
	} else if c.NShards <= 1 || c.Shard == c.NShards-1 {
		reorgPart(c, r, nil)
	} else if c.Shard == c.NShards-2 {
		// "ever accepted", between threads: a block that acknowledges the frontier arrives by gossip while sync switches the
		// node to a branch without that momentum - every schedule with at most one preemption (two in the thorough tier) of
		// C14's scenario S4; afterwards the pool holds no block a node on the final chain refuses
		bound := 1
		if c.Thorough() {
			bound = 2
		}
		c14.RunScenario(c, r, "S4-gossip-vs-switch", "C03", bound)
	}
	w := buildWorld(c)
	setRegime(true)
	states := buildStates(c, w)
	var only *caseID
	if c.Replay != nil {
		var id caseID
		if err := json.Unmarshal(c.Replay, &id); err != nil {
			panic(err)
		}
		only = &id
		r.Count("replay_mode", 1)
	}
	item := 0
	for _, enf := range []bool{true, false} {
		setRegime(enf)
		for _, st := range states {
			if only != nil && (only.State != st.Name || only.Enforced != enf) {
				continue
			}
			rn := &runner{c: c, r: r, w: w, st: st, enf: enf}
			stateUsed := false
			for _, cd := range st.cands {
				if only != nil && only.Type != cd.Type {
					continue
				}
				dom := cd.domain()
				if only != nil {
					var ms []mutation
					for _, om := range only.Muts {
						for _, m := range dom {
							if m.Field == om.Field && m.Val == om.Val {
								ms = append(ms, m)
							}
						}
					}
					if len(ms) != len(only.Muts) {
						panic("replay: mutation not found in the domain")
					}
					rn.submit(cd, ms, only.Mode)
					stateUsed = true
					continue
				}
				// the valid candidate itself must be accepted (vacuity), in every mode it must be judged
				item++
				if c.Mine(item) {
					stateUsed = true
					before := r.Counters["accepted"]
					rn.submit(cd, nil, 0)
					if r.Counters["accepted"] != before+1 {
						panic(fmt.Sprintf("state %s: the valid %s candidate is not accepted", st.Name, cd.Type))
					}
					rn.submit(cd, nil, 1)
					rn.submit(cd, nil, 2)
					r.Count("valid_candidates", 1)
					r.Add("fields", "-")
				}
				for i, m1 := range dom {
					item++
					if !c.Mine(item) {
						continue
					}
					if c.Expired() {
						r.Incomplete = true
						rn.close()
						return
					}
					stateUsed = true
					r.Add("fields", m1.Field)
					r.Add("field_values", cd.Type+":"+m1.String())
					for mode := range modes {
						rn.submit(cd, []mutation{m1}, mode)
						r.Count("single_mutations", 1)
					}
					// two-field closure: everywhere in the thorough tier, in state A under the enforced regime in the quick tier
					if !c.Thorough() && !(enf && strings.HasPrefix(st.Name, "A:")) {
						continue
					}
					for _, m2 := range dom[i+1:] {
						if m2.Field == m1.Field {
							continue
						}
						for mode := range modes {
							rn.submit(cd, []mutation{m1, m2}, mode)
							r.Count("double_mutations", 1)
						}
					}
				}
			}
			rn.close()
			if stateUsed {
				r.Add("states", fmt.Sprintf("%s/%s", st.Name, regimeName(enf)))
				r.Sample(map[string]interface{}{"state": st.Name, "regime": regimeName(enf), "candidates": len(st.cands)})
			}
		}
	}
}

func init() {
	xs.Register(&xs.Check{
		ID:     "C03",
		Level:  "model_checking",
		Shards: func(tier string) int { return 16 },
		Budget: func(tier string) time.Duration {
			if tier == "thorough" {
				return 20 * time.Minute
			}
			return 3 * time.Minute
		},
		Assumptions: []string{
			"mock genesis (chain id 100); states are prefixes (heights 2, 3, 5) of one producer history plus gossiped pool blocks; candidates are delivered through protocol.ChainBridge.AddAccountBlocks (Supervisor.ApplyBlock + chain.AddAccountBlockTransaction) on a fresh follower per accepted candidate / per 64 rejected ones",
			"verifier.ReceiverMismatchEnforcementHeight is set to 0 (enforced regime) and to 2^40 (legacy regime); the receiver clause of the predicate is applied only in the enforced regime",
			"accepted = nil error and the pool changed; a nil error without insertion (stand-alone contract send skipped, known identifier deduplicated) is counted separately and not judged",
			"the predicate demands only what the statement says: plasma, proof-of-work, sequencer order, send-time contract validation, and fields outside the hash that the statement does not mention (ChangesHash/BasePlasma/TotalPlasma of user blocks) are not part of it; contract blocks must be byte-identical to the block generated by Supervisor.GenerateAutoReceive in the same state",
			"contract send blocks cannot be submitted stand-alone (rejected/skipped by type): they are exercised as the descendant of a contract receive (sentinel registration refund); mutations of the 'contract-send' candidate are applied to the descendant, sealing recomputes descendant and parent hashes, the foreign-key mode puts key and signature on the descendant",
			"user balances of the predicate are replayed from the genesis configuration over the blocks the harness fed to the node, not read from the node",
			"a send to an embedded contract whose call data is the canonical encoding followed by extra bytes, arriving under the hash of the canonical block, is accepted by the node as the canonical block (it rewrites Data before it checks the hash): what is judged is the block the node holds afterwards, which must be held under the hash of its own content and under the hash the candidate came with (counter accepted_as_the_canonical_call)",
			"the reorganisation part and the schedule scenario (C14's S4, explored under this property's name) judge what the node holds afterwards: every confirmed block acknowledges a momentum on the node's chain / the pool holds no block a fresh node on the same chain refuses",
		},
		Run: run,
		Finish: func(tier string, m *xs.Result, ev *xs.Evidence) {
			ev.Coverage["states"] = len(m.Sets["states"])
			ev.Coverage["transitions"] = m.Counters["candidates"]
			ev.Coverage["traces_validated_against_impl"] = m.Counters["candidates"]
			var never []string
			for _, e := range reasonTable {
				if m.Counters["reason:"+e.Error()] == 0 {
					never = append(never, e.Error())
				}
			}
			sort.Strings(never)
			var vp []string
			for k := range m.Sets["vm_panic_single_mutations"] {
				vp = append(vp, k)
			}
			sort.Strings(vp)
			ev.Coverage["recovered_vm_panics_single_mutations"] = vp
			var ig []string
			for k := range m.Sets["ignored_single_mutations"] {
				ig = append(ig, k)
			}
			sort.Strings(ig)
			ev.Coverage["nil_error_without_insertion_single_mutations"] = ig
			ev.Coverage["verifier_reasons_total"] = len(reasonTable)
			ev.Coverage["verifier_reasons_never_hit"] = never
			if m.Incomplete || m.Counters["replay_mode"] > 0 {
				return
			}
			// vacuity guards
			if m.Counters["accepted"] == 0 || m.Counters["rejected"] == 0 || m.Counters["accepted_mutated"] == 0 || len(m.Sets["rejection_reasons"]) < 20 || len(m.Sets["fields"]) < 23 {
				panic(fmt.Sprintf("C03 vacuity guard: accepted=%d rejected=%d accepted_mutated=%d reasons=%d fields=%d", m.Counters["accepted"], m.Counters["rejected"],
					m.Counters["accepted_mutated"], len(m.Sets["rejection_reasons"]), len(m.Sets["fields"])))
			}
			for _, t := range []string{tUserSend, tUserCall, tUserReceive, tUserFirst, tContractRecv, tContractSend} {
				if m.Counters["accepted:"+t] == 0 {
					panic("C03 vacuity guard: no accepted candidate of type " + t)
				}
			}
		},
	})
}

var _ = bytes.Equal
