package c09

import (
	"fmt"
	"io"
	"os"
	"path/filepath"

	"github.com/zenon-network/go-zenon/chain/nom"
	"github.com/zenon-network/go-zenon/common/types"
	"github.com/zenon-network/go-zenon/vm"
	"github.com/zenon-network/go-zenon/vm/constants"

	g "github.com/zenon-network/go-zenon/chain/genesis/mock"

	"verifmc/internal/vnode"
)

// ---------------------------------------------------------------------------------------------------------------------
// process globals owned by this check

// regime = set of sporks activated on the worker's chain. The method table GetEmbeddedMethod selects depends on it.
type regime struct {
	Name                string
	Accel, Bridge, Htlc bool
}

var regimes = []regime{
	{"origin", false, false, false},
	{"accelerator", true, false, false},
	{"accelerator+bridge", true, true, false},
	{"accelerator+htlc", true, false, true}, // the order in which the sporks were activated historically
	{"accelerator+bridge+htlc", true, true, true},
}

const (
	fuseExpiration     = 6 // momentums (repository default: 3600)
	updateMinMomentums = 4 // momentums between two Update executions (repository default: 300)
	sporkDelay         = 2 // momentums between spork activation and enforcement (repository default: 6)
	adminDelay         = 2
	softDelay          = 1
	unhaltDuration     = 1
	minGuardians       = 2
)

func setGlobals() {
	vnode.Quiet()
	constants.FuseExpiration = fuseExpiration
	constants.UpdateMinNumMomentums = updateMinMomentums
	constants.SporkMinHeightDelay = sporkDelay
	constants.MinAdministratorDelay = adminDelay
	constants.MinSoftDelay = softDelay
	constants.MinUnhaltDurationInMomentums = unhaltDuration
	constants.MinGuardians = minGuardians
	constants.InitialBridgeAdministrator = g.User5.Address
	// time windows rescaled so that "matured" states are one cheap 26-hour jump away (the consensus module needs ~0.16 s
	// per simulated day of missed slots): lock 20 h + revoke window 10 h for pillars and sentinels (repository: 83+7 and
	// 27+3 days), staking unit 2 h (repository: 30 days). Reward epochs keep their 24 h.
	constants.PillarEpochLockTime = 20 * 3600
	constants.PillarEpochRevokeTime = 10 * 3600
	constants.SentinelLockTimeWindow = 20 * 3600
	constants.SentinelRevokeTimeWindow = 10 * 3600
	constants.StakeTimeUnitSec = 2 * 3600
	constants.StakeTimeMinSec = constants.StakeTimeUnitSec
	constants.StakeTimeMaxSec = constants.StakeTimeUnitSec * 12
	// no spork is implemented until the worker's chain creates it (ids are hashes of the creating send blocks)
	for k := range types.ImplementedSporksMap {
		delete(types.ImplementedSporksMap, k)
	}
	unset := types.HexToHashPanic("00000000000000000000000000000000000000000000000000000000000000c9")
	types.AcceleratorSpork.SporkId = unset
	types.HtlcSpork.SporkId = unset
	types.BridgeAndLiquiditySpork.SporkId = unset
}

// ---------------------------------------------------------------------------------------------------------------------
// node helpers

func must(err error) {
	if err != nil {
		panic(err)
	}
}

func copyDir(src, dst string) {
	must(filepath.Walk(src, func(p string, info os.FileInfo, err error) error {
		if err != nil {
			return err
		}
		rel, _ := filepath.Rel(src, p)
		t := filepath.Join(dst, rel)
		if info.IsDir() {
			return os.MkdirAll(t, 0o755)
		}
		in, err := os.Open(p)
		if err != nil {
			return err
		}
		defer in.Close()
		out, err := os.Create(t)
		if err != nil {
			return err
		}
		_, err = io.Copy(out, in)
		if cerr := out.Close(); err == nil {
			err = cerr
		}
		return err
	}))
}

// snapshot of a (producer, follower) pair at rest: two directories that can be copied and reopened.
type snapshot struct {
	Name     string
	ProdDir  string
	FollDir  string
	Env      *stateEnv
	Height   uint64
	FollowOK bool
}

// pair is a live producer node plus a follower node that has been fed every momentum of the producer so far.
type pair struct {
	P, F   *vnode.Node
	synced uint64 // height up to which F has been fed
}

func (s *snapshot) open(dirP, dirF string) *pair {
	copyDir(s.ProdDir, dirP)
	copyDir(s.FollDir, dirF)
	p := &pair{P: vnode.New(vnode.Options{Dir: dirP}), F: vnode.New(vnode.Options{Dir: dirF, NoPillars: true})}
	p.synced = p.F.Height()
	return p
}

func (p *pair) destroy() {
	p.P.Destroy()
	p.F.Destroy()
}

// syncFollower feeds the follower every producer momentum it has not seen; returns a description of a refusal.
func (p *pair) syncFollower() string {
	h := p.P.Height()
	if h <= p.synced {
		return ""
	}
	batch := vnode.CloneBatch(p.P.Range(p.synced+1, h))
	idx, err, pan := p.F.InsertChain(batch)
	if pan != nil {
		return fmt.Sprintf("follower InsertChain panicked at momentum %d: %v", p.synced+1+uint64(idx), pan)
	}
	if err != nil {
		return fmt.Sprintf("follower refused momentum %d: %v", p.synced+1+uint64(idx), err)
	}
	if p.F.Height() != h {
		return fmt.Sprintf("follower height %d after InsertChain, producer %d", p.F.Height(), h)
	}
	p.synced = h
	return ""
}

// freeze stops both nodes and records their directories as a snapshot; the pair must not be used afterwards.
func (p *pair) freeze(name string, env *stateEnv) *snapshot {
	if msg := p.syncFollower(); msg != "" {
		panic("base state " + name + ": " + msg)
	}
	s := &snapshot{Name: name, ProdDir: p.P.Opts.Dir, FollDir: p.F.Opts.Dir, Env: env, Height: p.P.Height()}
	p.P.Stop()
	p.F.Stop()
	return s
}

// ---------------------------------------------------------------------------------------------------------------------
// safe producer steps (the pillar's own task goroutine re-panics, which would kill the worker process)

type recvResult struct {
	Send     *nom.AccountBlock
	Exec     *vm.ContractExecution
	Err      error
	Panic    interface{}
	Stack    string
	Inserted bool
	InsErr   error
}

func inboxHead(n *vnode.Node, contract types.Address) *nom.AccountBlock {
	st := n.Chain.GetFrontierMomentumStore()
	acc := n.Chain.GetFrontierAccountStore(contract)
	hd := acc.SequencerFront(st.GetAccountMailbox(contract))
	if hd == nil {
		return nil
	}
	b, err := st.GetAccountBlock(*hd)
	must(err)
	if b == nil {
		panic("sequencer front not in momentum store")
	}
	return b
}

func insertTx(n *vnode.Node, tx *nom.AccountBlockTransaction) error {
	insert := n.Chain.AcquireInsert("c09 insert receive")
	defer insert.Unlock()
	return n.Chain.AddAccountBlockTransaction(insert, tx)
}
