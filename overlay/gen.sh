#!/bin/bash
exec python3 /verif/overlay/gen.py
