package c18

import (
	"bytes"
	"encoding/json"
	"fmt"
	"io"
	"net"
	"net/http"
	"net/http/httptest"
	"reflect"
	"sort"
	"strings"
	"time"

	"github.com/zenon-network/go-zenon/chain/nom"
	"github.com/zenon-network/go-zenon/common/types"
	"github.com/zenon-network/go-zenon/rpc/api"
	"github.com/zenon-network/go-zenon/rpc/api/embedded"
	"github.com/zenon-network/go-zenon/rpc/api/subscribe"
	rpcserver "github.com/zenon-network/go-zenon/rpc/server"
)

// ---------------------------------------------------------------------------------------------------------------------
// Part (c): the JSON-RPC server fed hostile input. Everything in this file runs inside the child process (child.go).

// creq is one enumerated request.
type creq struct {
	Class string `json:"class"`
	Body  []byte `json:"body"` // base64 in JSON
	// transport restrictions / http specifics
	HTTPOnly    bool   `json:"httpOnly,omitempty"`
	PipeOnly    bool   `json:"pipeOnly,omitempty"`
	HTTPMethod  string `json:"httpMethod,omitempty"`  // default POST
	ContentType string `json:"contentType,omitempty"` // default application/json ; "-" = none
	NoLength    bool   `json:"noLength,omitempty"`    // unknown Content-Length (chunked upload)
	WantStatus  int    `json:"wantStatus,omitempty"`  // expected non-200 http status
	// Expect: canonical JSON of the result the first call in Body must return ("" = any well-formed response);
	// ExpectErr: the call must return an error response
	Expect    string `json:"expect,omitempty"`
	ExpectErr bool   `json:"expectErr,omitempty"`
}

type rpcEnv struct {
	ci     *chainIndex
	srv    *rpcserver.Server
	ledger *api.LedgerApi
	// sentinel
	sentinelBody   []byte
	sentinelExpect string
	instances      []*instance // paged instances of the chain (matrix requests)
}

// probeService is a handler with controlled faults, registered next to the real APIs: the mechanism under test is the
// server's per-call panic containment (rpc/server/service.go callback.call) and its handling of failing handlers.
type probeService struct{}

func (probeService) Boom() (string, error) { panic("c18 probe: boom") }
func (probeService) NilDeref() (int, error) {
	var p *struct{ X int }
	return p.X, nil
}
func (probeService) Fail() (string, error)               { return "", fmt.Errorf("c18 probe: failed") }
func (probeService) Echo(s string) (string, error)       { return s, nil }
func (probeService) Unmarshalable() (interface{}, error) { return make(chan int), nil }
func (probeService) NoReturn()                           {}

func newRPCEnv(ci *chainIndex) *rpcEnv {
	z := &zAdapter{ci.n}
	srv := rpcserver.NewServer()
	reg := func(ns string, svc interface{}) {
		if err := srv.RegisterName(ns, svc); err != nil {
			panic(err)
		}
	}
	ledger := api.NewLedgerApi(z)
	reg("ledger", ledger)
	ss := subscribe.GetSubscribeServer(ci.n.Chain)
	if err := ss.Init(); err != nil {
		panic(err)
	}
	if err := ss.Start(); err != nil {
		panic(err)
	}
	reg("ledger", subscribe.GetSubscribeApi())
	reg("embedded.token", embedded.NewTokenApi(z))
	reg("embedded.sentinel", embedded.NewSentinelApi(z))
	reg("embedded.pillar", embedded.NewPillarApi(z, true))
	reg("embedded.plasma", embedded.NewPlasmaApi(z))
	reg("embedded.stake", embedded.NewStakeApi(z))
	reg("embedded.swap", embedded.NewSwapApi(z))
	reg("embedded.spork", embedded.NewSporkApi(z))
	reg("embedded.accelerator", embedded.NewAcceleratorApi(z))
	reg("embedded.htlc", embedded.NewHtlcApi(z))
	reg("embedded.bridge", embedded.NewBridgeApi(z))
	reg("embedded.liquidity", embedded.NewLiquidityApi(z))
	reg("c18probe", probeService{})
	e := &rpcEnv{ci: ci, srv: srv, ledger: ledger}
	e.sentinelBody = []byte(`{"jsonrpc":"2.0","id":"c18-sentinel","method":"ledger.getFrontierMomentum","params":[]}`)
	m, err := ledger.GetFrontierMomentum()
	if err != nil {
		panic(err)
	}
	e.sentinelExpect = canonJSON(mustJSON(m))
	return e
}

func mustJSON(v interface{}) []byte {
	b, err := json.Marshal(v)
	if err != nil {
		panic(err)
	}
	return b
}

// canonJSON re-encodes JSON text canonically (sorted keys, numbers verbatim).
func canonJSON(b []byte) string {
	dec := json.NewDecoder(bytes.NewReader(b))
	dec.UseNumber()
	var v interface{}
	if err := dec.Decode(&v); err != nil {
		return "!invalid:" + string(b)
	}
	out, _ := json.Marshal(v)
	return string(out)
}

// ---------------------------------------------------------------------------------------------------------------------
// the grammar

type validCall struct {
	Name   string
	Method string
	Params []string // JSON text of each positional parameter
	Kinds  []string // "address" | "hash" | "uint32" | "uint64" | "object" | "string"
	Direct func() (interface{}, error)
}

func (e *rpcEnv) validCalls() []validCall {
	n := e.ci.n
	z := &zAdapter{n}
	fr, err := n.Chain.GetFrontierAccountStore(u1).Frontier()
	if err != nil || fr == nil {
		panic("no frontier block for user1")
	}
	// a confirmed block of user1
	var blk *nom.AccountBlock
	for _, b := range e.ci.allBlocks {
		if b.Address == u1 && e.ci.confirmed[b.Hash] > 0 {
			blk = b
		}
	}
	tok := embedded.NewTokenApi(z)
	plasma := embedded.NewPlasmaApi(z)
	q := func(s string) string { return `"` + s + `"` }
	u2a := u2
	return []validCall{
		{"V1", "ledger.getFrontierMomentum", nil, nil, func() (interface{}, error) { return e.ledger.GetFrontierMomentum() }},
		{"V2", "ledger.getAccountBlocksByPage", []string{q(u1.String()), "0", "2"}, []string{"address", "uint32", "uint32"},
			func() (interface{}, error) { return e.ledger.GetAccountBlocksByPage(u1, 0, 2) }},
		{"V3", "embedded.token.getAll", []string{"0", "10"}, []string{"uint32", "uint32"}, func() (interface{}, error) { return tok.GetAll(0, 10) }},
		{"V4", "ledger.getMomentumsByHeight", []string{"1", "2"}, []string{"uint64", "uint64"}, func() (interface{}, error) { return e.ledger.GetMomentumsByHeight(1, 2) }},
		{"V5", "embedded.plasma.getRequiredPoWForAccountBlock", []string{`{"address":` + q(u1.String()) + `,"blockType":2,"toAddress":` + q(u2.String()) + `,"data":"AQID"}`}, []string{"object"},
			func() (interface{}, error) {
				return plasma.GetRequiredPoWForAccountBlock(embedded.GetRequiredParam{SelfAddr: u1, BlockType: 2, ToAddr: &u2a, Data: []byte{1, 2, 3}})
			}},
		{"V6", "ledger.getAccountBlockByHash", []string{q(blk.Hash.String())}, []string{"hash"}, func() (interface{}, error) { return e.ledger.GetAccountBlockByHash(blk.Hash) }},
	}
}

func reqJSON(id string, method string, params []string) []byte {
	return []byte(`{"jsonrpc":"2.0","id":` + id + `,"method":"` + method + `","params":[` + strings.Join(params, ",") + `]}`)
}

func (v validCall) body(id string) []byte { return reqJSON(id, v.Method, v.Params) }

// setupProblems collects direct-call failures met while the request list is built (reported by the child as findings of
// their own; the affected requests then only require a well-formed answer).
var setupProblems []string

func (v validCall) expect() (out string) {
	defer func() {
		if p := recover(); p != nil {
			setupProblems = append(setupProblems, fmt.Sprintf("%s: direct call %s panics: %v", v.Name, v.Method, p))
			out = ""
		}
	}()
	res, err := v.Direct()
	if err != nil {
		setupProblems = append(setupProblems, fmt.Sprintf("%s: direct call %s fails: %v", v.Name, v.Method, err))
		return ""
	}
	return canonJSON(mustJSON(res))
}

func withParam(ps []string, i int, v string) []string {
	out := append([]string{}, ps...)
	out[i] = v
	return out
}

// wrongValues are substituted at every parameter position of every valid call.
var wrongValues = []struct{ name, json string }{
	{"null", "null"}, {"true", "true"}, {"zero", "0"}, {"str", `"x"`}, {"empty-str", `""`}, {"float", "1.5"}, {"neg", "-1"},
	{"1e400", "1e400"}, {"2^64", "18446744073709551616"}, {"2^32", "4294967296"}, {"2^63", "9223372036854775808"},
	{"array", "[]"}, {"object", "{}"}, {"nested-array", "[[]]"}, {"object-a", `{"a":1}`}, {"digits-400", strings.Repeat("9", 400)},
	{"num-as-str", `"1"`}, {"bad-address", `"z1qqqqqqqqqqqqqqqqqqqqqqqqqqqqqqqqqqqqqq"`}, {"bad-hash", `"zz"`}, {"hex-0x", `"0x01"`},
}

func (e *rpcEnv) requests(tier string) []creq {
	var out []creq
	add := func(c creq) { out = append(out, c) }
	vcs := e.validCalls()
	// A. valid calls with several id forms
	ids := []struct{ name, json string }{{"int", "1"}, {"string", `"abc"`}, {"null", "null"}, {"float", "1.5"}, {"2^64", "18446744073709551616"}, {"1e400", "1e400"}, {"neg", "-7"}, {"empty-string", `""`}, {"long-string", `"` + strings.Repeat("i", 4096) + `"`}}
	for _, v := range vcs {
		exp := v.expect()
		for _, id := range ids {
			add(creq{Class: "valid:" + v.Name + ":id-" + id.name, Body: v.body(id.json), Expect: exp})
		}
		// whitespace / member order / no version are still the same call
		add(creq{Class: "valid:" + v.Name + ":whitespace", Body: []byte(" \n\t" + strings.ReplaceAll(string(v.body("1")), ",", " ,\n ") + "\n\n"), Expect: exp})
		add(creq{Class: "valid:" + v.Name + ":reordered-no-version", Body: []byte(`{"params":[` + strings.Join(v.Params, ",") + `],"method":"` + v.Method + `","id":9}`), Expect: exp})
	}
	// B. wrong JSON type at each parameter position
	for _, v := range vcs {
		for p := range v.Params {
			for _, w := range wrongValues {
				add(creq{Class: fmt.Sprintf("wrongtype:%s:p%d:%s", v.Name, p, w.name), Body: reqJSON("1", v.Method, withParam(v.Params, p, w.json))})
			}
		}
	}
	// C. missing / extra / null / non-array params
	for _, v := range vcs {
		for k := 1; k <= len(v.Params); k++ {
			add(creq{Class: fmt.Sprintf("missing:%s:last%d", v.Name, k), Body: reqJSON("1", v.Method, v.Params[:len(v.Params)-k]), ExpectErr: true})
		}
		add(creq{Class: "extra:" + v.Name + ":1", Body: reqJSON("1", v.Method, append(append([]string{}, v.Params...), "1")), ExpectErr: true})
		add(creq{Class: "extra:" + v.Name + ":null", Body: reqJSON("1", v.Method, append(append([]string{}, v.Params...), "null")), ExpectErr: true})
		add(creq{Class: "extra:" + v.Name + ":1000", Body: reqJSON("1", v.Method, append(append([]string{}, v.Params...), strings.Split(strings.Repeat("1,", 999)+"1", ",")...)), ExpectErr: true})
		for _, pv := range []struct{ name, json string }{{"null", "null"}, {"object", "{}"}, {"string", `"x"`}, {"number", "5"}, {"true", "true"}, {"named", `{"pageIndex":0,"pageSize":1}`}} {
			c := creq{Class: "params:" + v.Name + ":" + pv.name, Body: []byte(`{"jsonrpc":"2.0","id":1,"method":"` + v.Method + `","params":` + pv.json + `}`)}
			if len(v.Params) > 0 {
				c.ExpectErr = true
			}
			add(c)
		}
		c := creq{Class: "params:" + v.Name + ":absent", Body: []byte(`{"jsonrpc":"2.0","id":1,"method":"` + v.Method + `"}`)}
		if len(v.Params) > 0 {
			c.ExpectErr = true
		}
		add(c)
	}
	// D. huge numbers elsewhere
	for _, num := range []string{"1e400", "-1e400", "18446744073709551616", "-1", "1E+9999", strings.Repeat("1", 5000)} {
		add(creq{Class: "hugenum:id:" + num[:min(len(num), 12)], Body: vcs[0].body(num)})
		add(creq{Class: "hugenum:jsonrpc:" + num[:min(len(num), 12)], Body: []byte(`{"jsonrpc":` + num + `,"id":1,"method":"ledger.getFrontierMomentum","params":[]}`)})
		add(creq{Class: "hugenum:method:" + num[:min(len(num), 12)], Body: []byte(`{"jsonrpc":"2.0","id":1,"method":` + num + `,"params":[]}`)})
	}
	// E. deep nesting
	for _, depth := range []int{100, 9999, 10000, 10001, 100000} {
		open, cl := strings.Repeat("[", depth), strings.Repeat("]", depth)
		add(creq{Class: fmt.Sprintf("deep:params-array:%d", depth), Body: []byte(`{"jsonrpc":"2.0","id":1,"method":"ledger.getFrontierMomentum","params":` + open + cl + `}`)})
		add(creq{Class: fmt.Sprintf("deep:param0-array:%d", depth), Body: reqJSON("1", "ledger.getAccountBlockByHash", []string{open + cl})})
		add(creq{Class: fmt.Sprintf("deep:body-array:%d", depth), Body: []byte(open + cl)})
		add(creq{Class: fmt.Sprintf("deep:body-array-unclosed:%d", depth), Body: []byte(open)})
		add(creq{Class: fmt.Sprintf("deep:body-object:%d", depth), Body: []byte(strings.Repeat(`{"a":`, depth) + "1" + strings.Repeat("}", depth))})
		add(creq{Class: fmt.Sprintf("deep:id-array:%d", depth), Body: []byte(`{"jsonrpc":"2.0","id":` + open + cl + `,"method":"ledger.getFrontierMomentum","params":[]}`)})
	}
	// F. oversized
	const mib5 = 5 * 1024 * 1024
	big := strings.Repeat("a", mib5)
	add(creq{Class: "oversize:5MiB-string-param:http", Body: reqJSON("1", "ledger.getAccountBlockByHash", []string{`"` + big + `"`}), HTTPOnly: true, WantStatus: http.StatusRequestEntityTooLarge})
	add(creq{Class: "oversize:5MiB-string-param:http-unknown-length", Body: reqJSON("1", "ledger.getAccountBlockByHash", []string{`"` + big + `"`}), HTTPOnly: true, NoLength: true})
	add(creq{Class: "oversize:5MiB-string-param:pipe", Body: reqJSON("1", "ledger.getAccountBlockByHash", []string{`"` + big + `"`}), PipeOnly: true, ExpectErr: true})
	under := big[:mib5-200]
	add(creq{Class: "oversize:just-under-5MiB-string-param", Body: reqJSON("1", "ledger.getAccountBlockByHash", []string{`"` + under + `"`}), ExpectErr: true})
	add(creq{Class: "oversize:just-under-5MiB-method", Body: []byte(`{"jsonrpc":"2.0","id":1,"method":"` + under + `","params":[]}`), ExpectErr: true})
	add(creq{Class: "oversize:just-under-5MiB-id", Body: []byte(`{"jsonrpc":"2.0","id":"` + under + `","method":"ledger.getFrontierMomentum","params":[]}`), Expect: vcs[0].expect()})
	add(creq{Class: "oversize:just-under-5MiB-whitespace", Body: []byte(strings.Repeat(" ", mib5-200) + string(vcs[0].body("1"))), Expect: vcs[0].expect()})
	add(creq{Class: "oversize:6MiB-whitespace-only:http-unknown-length", Body: []byte(strings.Repeat(" ", mib5+mib5/5)), HTTPOnly: true, NoLength: true})
	// G. batches
	batch := func(items ...string) []byte { return []byte("[" + strings.Join(items, ",") + "]") }
	v1 := func(id int) string { return string(vcs[0].body(fmt.Sprint(id))) }
	add(creq{Class: "batch:empty", Body: []byte("[]")})
	add(creq{Class: "batch:empty-whitespace", Body: []byte(" [ \n ] ")})
	add(creq{Class: "batch:1", Body: batch(v1(1))})
	var hundred, hundredBad, hundredMixed []string
	for i := 0; i < 100; i++ {
		hundred = append(hundred, string(vcs[i%len(vcs)].body(fmt.Sprint(i))))
		hundredBad = append(hundredBad, fmt.Sprint(i))
		if i%2 == 0 {
			hundredMixed = append(hundredMixed, string(vcs[i%len(vcs)].body(fmt.Sprint(i))))
		} else {
			hundredMixed = append(hundredMixed, string(reqJSON(fmt.Sprint(i), vcs[1].Method, withParam(vcs[1].Params, i%3, wrongValues[i%len(wrongValues)].json))))
		}
	}
	add(creq{Class: "batch:100-valid", Body: batch(hundred...)})
	add(creq{Class: "batch:100-invalid", Body: batch(hundredBad...)})
	add(creq{Class: "batch:100-mixed", Body: batch(hundredMixed...)})
	add(creq{Class: "batch:mixed-kinds", Body: batch(v1(1), `{"foo":"bar"}`, string(vcs[1].body("2")), "5", "null", `"str"`, `{"jsonrpc":"2.0","method":"ledger.getFrontierMomentum","params":[]}`,
		`{"jsonrpc":"2.0","id":3,"method":"ledger.noSuchMethod","params":[]}`, string(reqJSON("4", vcs[2].Method, []string{`"x"`, "1"})), "[]", "[1]", `{"jsonrpc":"2.0","id":5,"result":1}`, "true", "{}")})
	add(creq{Class: "batch:only-notifications", Body: batch(`{"jsonrpc":"2.0","method":"ledger.getFrontierMomentum","params":[]}`, `{"jsonrpc":"2.0","method":"ledger.noSuchMethod"}`)})
	add(creq{Class: "batch:nested", Body: []byte("[[" + v1(1) + "]]")})
	add(creq{Class: "batch:duplicate-ids", Body: batch(v1(1), v1(1), v1(1))})
	add(creq{Class: "batch:10000-numbers", Body: batch(strings.Split(strings.Repeat("1,", 9999)+"1", ",")...)})
	add(creq{Class: "batch:trailing-comma", Body: []byte("[" + v1(1) + ",]")})
	// H. invalid UTF-8 and odd bytes
	add(creq{Class: "utf8:method", Body: []byte("{\"jsonrpc\":\"2.0\",\"id\":1,\"method\":\"ledger.get\xff\xfeFrontierMomentum\",\"params\":[]}")})
	add(creq{Class: "utf8:string-param", Body: reqJSON("1", "ledger.getAccountBlockByHash", []string{"\"\xc3\x28\xa0\xa1\xf0\x28\x8c\xbc\""})})
	add(creq{Class: "utf8:id", Body: []byte("{\"jsonrpc\":\"2.0\",\"id\":\"\xff\xff\",\"method\":\"ledger.getFrontierMomentum\",\"params\":[]}")})
	add(creq{Class: "utf8:key", Body: []byte("{\"json\xffrpc\":\"2.0\",\"id\":1,\"method\":\"ledger.getFrontierMomentum\",\"params\":[]}")})
	add(creq{Class: "utf8:raw-prefix", Body: append([]byte{0xff, 0xfe, 0x00}, vcs[0].body("1")...)})
	add(creq{Class: "utf8:bom-prefix", Body: append([]byte{0xef, 0xbb, 0xbf}, vcs[0].body("1")...)})
	add(creq{Class: "utf8:nul-in-string", Body: []byte("{\"jsonrpc\":\"2.0\",\"id\":1,\"method\":\"ledger.get\x00Frontier\",\"params\":[]}")})
	add(creq{Class: "utf8:escaped-nul-method", Body: []byte(`{"jsonrpc":"2.0","id":1,"method":"ledger.get\u0000Frontier","params":[]}`)})
	add(creq{Class: "utf8:lone-surrogate", Body: []byte(`{"jsonrpc":"2.0","id":"\ud800","method":"ledger.getFrontierMomentum","params":[]}`), Expect: vcs[0].expect()})
	add(creq{Class: "utf8:utf16-body", Body: []byte("{\x00\"\x00i\x00d\x00\"\x00:\x001\x00}\x00")})
	// I. unknown methods / namespaces / special suffixes
	for _, m := range []string{"ledger.noSuchMethod", "nosuch.getFrontierMomentum", "getFrontierMomentum", "", ".", "ledger.", ".getFrontierMomentum", "ledger..getFrontierMomentum", "Ledger.getFrontierMomentum",
		"ledger.GetFrontierMomentum", "ledger.string", "ledger.publishRawTransaction", "embedded.token", "embedded.token.getAll.x", "rpc.modules", "rpc.nosuch",
		"ledger.subscribe", ".subscribe", "subscribe", "x.unsubscribe", "ledger.unsubscribe", ".unsubscribe", "ledger.subscription", strings.Repeat("a.", 2000) + "b"} {
		name := m
		if len(name) > 40 {
			name = name[:40]
		}
		add(creq{Class: "method:" + name, Body: []byte(`{"jsonrpc":"2.0","id":1,"method":` + string(mustJSON(m)) + `,"params":[]}`)})
		add(creq{Class: "method-with-param:" + name, Body: []byte(`{"jsonrpc":"2.0","id":1,"method":` + string(mustJSON(m)) + `,"params":["momentums"]}`)})
	}
	for _, ps := range []string{`["momentums"]`, `["allAccountBlocks"]`, `["accountBlocksByAddress","` + u1.String() + `"]`, `["accountBlocksByAddress"]`, `["accountBlocksByAddress",5]`, `["noSuchSubscription"]`, `[5]`, `[]`, `null`, `{}`, `["momentums",1,2,3]`, `[null]`, `[["momentums"]]`} {
		add(creq{Class: "subscribe:" + ps, Body: []byte(`{"jsonrpc":"2.0","id":1,"method":"ledger.subscribe","params":` + ps + `}`)})
	}
	for _, ps := range []string{`["0x1"]`, `[]`, `[1]`, `[null]`, `["` + strings.Repeat("f", 1000) + `"]`} {
		add(creq{Class: "unsubscribe:" + ps[:min(len(ps), 16)], Body: []byte(`{"jsonrpc":"2.0","id":1,"method":"ledger.unsubscribe","params":` + ps + `}`)})
	}
	add(creq{Class: "publish:null", Body: []byte(`{"jsonrpc":"2.0","id":1,"method":"ledger.publishRawTransaction","params":[null]}`)})
	add(creq{Class: "publish:empty-object", Body: []byte(`{"jsonrpc":"2.0","id":1,"method":"ledger.publishRawTransaction","params":[{}]}`)})
	add(creq{Class: "publish:garbage-object", Body: []byte(`{"jsonrpc":"2.0","id":1,"method":"ledger.publishRawTransaction","params":[{"amount":"x","nonce":"zz","height":-1,"descendantBlocks":[null,{}]}]}`)})
	add(creq{Class: "publish:nested-pairs", Body: []byte(`{"jsonrpc":"2.0","id":1,"method":"ledger.publishRawTransaction","params":[{"pairedAccountBlock":{"pairedAccountBlock":{"pairedAccountBlock":null}},"token":null,"confirmationDetail":{}}]}`)})
	// handlers that fail: the call is answered with an error, the server lives on
	probe := func(m string, params string) []byte {
		return []byte(`{"jsonrpc":"2.0","id":1,"method":"c18probe.` + m + `","params":[` + params + `]}`)
	}
	add(creq{Class: "contain:panic", Body: probe("boom", ""), ExpectErr: true})
	add(creq{Class: "contain:nil-dereference", Body: probe("nilDeref", ""), ExpectErr: true})
	add(creq{Class: "contain:handler-error", Body: probe("fail", ""), ExpectErr: true})
	add(creq{Class: "contain:unmarshalable-result", Body: probe("unmarshalable", ""), ExpectErr: true})
	add(creq{Class: "contain:no-return-value", Body: probe("noReturn", ""), Expect: "null"})
	add(creq{Class: "contain:echo", Body: probe("echo", `"x\u0000\ud800y"`), Expect: canonJSON([]byte(`"x\u0000\ufffdy"`))})
	add(creq{Class: "contain:echo-4MiB", Body: probe("echo", `"`+big[:4*1024*1024]+`"`), Expect: `"` + big[:4*1024*1024] + `"`})
	add(creq{Class: "contain:panic-notification", Body: []byte(`{"jsonrpc":"2.0","method":"c18probe.boom","params":[]}`)})
	add(creq{Class: "contain:batch-with-panics", Body: batch(string(probe("boom", "")), v1(2), `{"jsonrpc":"2.0","id":3,"method":"c18probe.nilDeref"}`, `{"jsonrpc":"2.0","method":"c18probe.boom"}`, v1(4))})
	// K. other malformed envelopes
	for _, kv := range []struct{ name, body string }{
		{"null", "null"}, {"true", "true"}, {"number", "123"}, {"string", `"str"`}, {"empty-object", "{}"}, {"only-version", `{"jsonrpc":"2.0"}`}, {"only-id", `{"id":1}`},
		{"method-number", `{"jsonrpc":"2.0","id":1,"method":1}`}, {"method-null", `{"jsonrpc":"2.0","id":1,"method":null}`}, {"method-array", `{"jsonrpc":"2.0","id":1,"method":["ledger.getFrontierMomentum"]}`},
		{"id-object", `{"jsonrpc":"2.0","id":{},"method":"ledger.getFrontierMomentum","params":[]}`}, {"id-array", `{"jsonrpc":"2.0","id":[1],"method":"ledger.getFrontierMomentum","params":[]}`},
		{"id-true", `{"jsonrpc":"2.0","id":true,"method":"ledger.getFrontierMomentum","params":[]}`},
		{"version-1.0", `{"jsonrpc":"1.0","id":1,"method":"ledger.getFrontierMomentum","params":[]}`}, {"version-number", `{"jsonrpc":2,"id":1,"method":"ledger.getFrontierMomentum","params":[]}`},
		{"duplicate-keys", `{"jsonrpc":"2.0","id":1,"id":2,"method":"ledger.noSuch","method":"ledger.getFrontierMomentum","params":[1],"params":[]}`},
		{"upper-case-keys", `{"JSONRPC":"2.0","ID":1,"METHOD":"ledger.getFrontierMomentum","PARAMS":[]}`},
		{"notification", `{"jsonrpc":"2.0","method":"ledger.getFrontierMomentum","params":[]}`}, {"notification-unknown", `{"jsonrpc":"2.0","method":"ledger.noSuch","params":[]}`},
		{"notification-bad-params", `{"jsonrpc":"2.0","method":"ledger.getAccountBlocksByPage","params":[1,2,3]}`},
		{"response-like-result", `{"jsonrpc":"2.0","id":1,"result":1}`}, {"response-like-error", `{"jsonrpc":"2.0","id":1,"error":{"code":1,"message":"x"}}`}, {"response-like-bad-error", `{"jsonrpc":"2.0","id":1,"error":"x"}`},
		{"call-with-result", `{"jsonrpc":"2.0","id":1,"method":"ledger.getFrontierMomentum","params":[],"result":1,"error":{"code":1,"message":"m"}}`},
		{"subscription-notification", `{"jsonrpc":"2.0","method":"ledger.subscription","params":{"subscription":"0x1","result":1}}`}, {"subscription-notification-bad", `{"jsonrpc":"2.0","method":"ledger.subscription","params":5}`},
		{"trailing-garbage", `{"jsonrpc":"2.0","id":1,"method":"ledger.getFrontierMomentum","params":[]}xyz`},
		{"two-requests", `{"jsonrpc":"2.0","id":1,"method":"ledger.getFrontierMomentum","params":[]}{"jsonrpc":"2.0","id":2,"method":"ledger.getFrontierMomentum","params":[]}`},
		{"single-quotes", `{'jsonrpc':'2.0','id':1,'method':'ledger.getFrontierMomentum','params':[]}`}, {"comment", `/* c */{"jsonrpc":"2.0","id":1,"method":"ledger.getFrontierMomentum","params":[]}`},
		{"nan", `{"jsonrpc":"2.0","id":NaN,"method":"ledger.getFrontierMomentum","params":[]}`}, {"leading-zero", `{"jsonrpc":"2.0","id":01,"method":"ledger.getFrontierMomentum","params":[]}`},
		{"unterminated-string", `{"jsonrpc":"2.0","id":1,"method":"ledger.getFrontierMomentum`}, {"bad-escape", `{"jsonrpc":"2.0","id":1,"method":"ledger.\q","params":[]}`},
		{"closing-only", `}`}, {"brackets-mismatch", `{"jsonrpc":"2.0","id":1,"method":"ledger.getFrontierMomentum","params":[}]`}, {"whitespace-only", " \n\t "}, {"ctrl-chars", "\x01\x02\x03"},
		{"http-request-line", "GET / HTTP/1.1\r\nHost: x\r\n\r\n"},
	} {
		add(creq{Class: "envelope:" + kv.name, Body: []byte(kv.body)})
	}
	// L. http specifics
	add(creq{Class: "http:get-empty", HTTPOnly: true, HTTPMethod: "GET", Body: nil})
	add(creq{Class: "http:get-with-body", HTTPOnly: true, HTTPMethod: "GET", Body: vcs[0].body("1"), Expect: vcs[0].expect()})
	add(creq{Class: "http:put", HTTPOnly: true, HTTPMethod: "PUT", Body: vcs[0].body("1"), WantStatus: http.StatusMethodNotAllowed})
	add(creq{Class: "http:delete", HTTPOnly: true, HTTPMethod: "DELETE", Body: vcs[0].body("1"), WantStatus: http.StatusMethodNotAllowed})
	add(creq{Class: "http:options", HTTPOnly: true, HTTPMethod: "OPTIONS", Body: vcs[0].body("1"), ContentType: "-", Expect: vcs[0].expect()})
	add(creq{Class: "http:text-plain", HTTPOnly: true, Body: vcs[0].body("1"), ContentType: "text/plain", WantStatus: http.StatusUnsupportedMediaType})
	add(creq{Class: "http:no-content-type", HTTPOnly: true, Body: vcs[0].body("1"), ContentType: "-", WantStatus: http.StatusUnsupportedMediaType})
	add(creq{Class: "http:bad-content-type", HTTPOnly: true, Body: vcs[0].body("1"), ContentType: ";;;=", WantStatus: http.StatusUnsupportedMediaType})
	add(creq{Class: "http:json-rpc-content-type", HTTPOnly: true, Body: vcs[0].body("1"), ContentType: "application/json-rpc; charset=utf-8", Expect: vcs[0].expect()})
	add(creq{Class: "http:unknown-length", HTTPOnly: true, Body: vcs[1].body("1"), NoLength: true, Expect: vcs[1].expect()})
	// J. the valid request truncated at EVERY byte (3 calls: no params, three scalar params, one object param)
	truncated := []validCall{vcs[0], vcs[1], vcs[4]}
	if tier == "thorough" {
		truncated = vcs // all six, plus a batch of three calls
	}
	for _, v := range truncated {
		body := v.body("1")
		for cut := 0; cut < len(body); cut++ {
			add(creq{Class: fmt.Sprintf("truncate:%s@%03d", v.Name, cut), Body: body[:cut]})
		}
	}
	if tier == "thorough" {
		body := batch(string(vcs[0].body("1")), string(vcs[1].body("2")), `{"jsonrpc":"2.0","method":"ledger.getFrontierMomentum"}`)
		for cut := 0; cut < len(body); cut++ {
			add(creq{Class: fmt.Sprintf("truncate:B3@%03d", cut), Body: body[:cut]})
		}
	}
	return out
}

// argsJSON renders the fixed (non-paging) arguments of an instance as JSON parameters.
func argsJSON(in *instance) []string {
	addrLabels := map[string]string{"user1": u1.String(), "user2": u2.String(), "user3": u3.String(), "user4": u4.String(), "unknown": unknownAddr.String(),
		"tokenContract": types.TokenContract.String(), "stakeContract": types.StakeContract.String(), "pillarContract": types.PillarContract.String(), "pillar1": p1addr.String()}
	switch {
	case in.Arg == "":
		return nil
	case in.Method == "embedded.pillar.getPillarEpochHistory":
		return []string{string(mustJSON(in.Arg))}
	case strings.HasPrefix(in.Arg, "epoch="):
		return []string{strings.TrimPrefix(in.Arg, "epoch=")}
	case strings.HasPrefix(in.Arg, `"`):
		return strings.Split(in.Arg, ",")
	}
	if a, ok := addrLabels[in.Arg]; ok {
		return []string{`"` + a + `"`}
	}
	panic("argsJSON: unknown fixed-argument label " + in.Arg)
}

// matrixRequests: the paging grid through the server (callback.call included). For a few methods the expected answer is
// the JSON of what the direct call returns (result, error, or — when the direct call panics — an error response); in
// the thorough tier every paged instance of the chain is driven this way and compared on error-vs-result, list length
// and count field.
func (e *rpcEnv) matrixRequests(tier string) []creq {
	var out []creq
	ci := e.ci
	full := map[string]bool{"ledger.getAccountBlocksByPage(user1)": true, "ledger.getMomentumsByHeight": true, "ledger.getAccountBlocksByHeight(user1)": true, "embedded.token.getAll": true,
		"embedded.accelerator.getAll": true, "embedded.pillar.getFrontierRewardByPage(pillar1)": true, "embedded.stake.getEntriesByAddress(user1)": true, "embedded.pillar.getPillarEpochHistory(TEST-pillar-1)": true}
	e.instances = buildInstances(ci)
	for idx, in := range e.instances {
		if !full[in.label()] && tier != "thorough" {
			continue
		}
		N := len(in.Truth)
		for _, b := range sizesFor(in) {
			var as []uint64
			if in.Height {
				as = uniq([]uint64{0, 1, 2, uint64(N), uint64(N) + 1, 1 << 63, ^uint64(0)})
			} else {
				lp := lastPage(N, b)
				as = uniq([]uint64{0, 1, 2, lp, lp + 1, 1 << 16, 1 << 22, 1 << 31, 1<<32 - 1})
			}
			for _, a := range as {
				if !in.Height && b > 1<<32-1 {
					continue
				}
				ps := append(append([]string{}, argsJSON(in)...), fmt.Sprint(a), fmt.Sprint(b))
				exp := fmt.Sprintf("directpaged:%d:%d:%d", idx, a, b)
				if full[in.label()] {
					exp = "direct:" + in.label() + fmt.Sprintf(":%d:%d", a, b)
				}
				out = append(out, creq{Class: fmt.Sprintf("matrix:%s:%d:%d", in.label(), a, b), Body: reqJSON("1", in.Method, ps), HTTPOnly: true, Expect: exp})
			}
		}
	}
	return out
}

// directPaged compares a served result with the direct call of instance idx on list length and count.
func (e *rpcEnv) directPaged(spec string, g gotResp, raw json.RawMessage) string {
	var idx int
	var a, b uint64
	if _, err := fmt.Sscanf(strings.TrimPrefix(spec, "directpaged:"), "%d:%d:%d", &idx, &a, &b); err != nil {
		panic(err)
	}
	o := safeCall(e.instances[idx], a, b)
	switch {
	case o.hung:
		return "direct call did not return"
	case o.panicked != nil || o.err != nil:
		if !g.IsErr {
			return fmt.Sprintf("direct call fails (%v %v) but the server returned a result", o.panicked, o.err)
		}
		return ""
	case g.IsErr:
		return "direct call succeeds but the server answered with error " + g.Code + ": " + clip(string(raw), 200)
	}
	var lst struct {
		Count *json.Number      `json:"count"`
		List  []json.RawMessage `json:"list"`
	}
	if err := json.Unmarshal([]byte(g.Result), &lst); err != nil || lst.Count == nil {
		return "served result is not a {count, list} object: " + clip(g.Result, 160)
	}
	if lst.Count.String() != fmt.Sprint(o.res.Count) || len(lst.List) != len(o.res.List) {
		return fmt.Sprintf("served count=%s len(list)=%d, direct call count=%d len(list)=%d", lst.Count, len(lst.List), o.res.Count, len(o.res.List))
	}
	return ""
}

func min(a, b int) int {
	if a < b {
		return a
	}
	return b
}

// ---------------------------------------------------------------------------------------------------------------------
// what a request must produce

type mirrorMsg struct {
	Version string          `json:"jsonrpc,omitempty"`
	ID      json.RawMessage `json:"id,omitempty"`
	Method  string          `json:"method,omitempty"`
	Params  json.RawMessage `json:"params,omitempty"`
	Error   json.RawMessage `json:"error,omitempty"`
	Result  json.RawMessage `json:"result,omitempty"`
}

// slot: one response the server owes. ID "" = null id.
type slot struct {
	ID     string // canonical JSON of the id the response must carry ("null" when the request had no usable id)
	IsCall bool   // a call with method and id (may legitimately produce a result); otherwise the response must be an error
}

type valueExpect struct {
	Batch bool
	Slots []slot
}

func expectFor(elem json.RawMessage) []slot {
	var m mirrorMsg
	trim := bytes.TrimSpace(elem)
	if len(trim) == 0 || trim[0] != '{' {
		if string(trim) == "null" {
			m = mirrorMsg{}
		}
		return []slot{{ID: "null"}}
	}
	json.Unmarshal(elem, &m) // errors ignored: fields that could be decoded are kept, like the server's envelope decoding
	validID := len(m.ID) > 0 && m.ID[0] != '{' && m.ID[0] != '['
	switch {
	case m.ID == nil && m.Method != "":
		return nil // notification: must not be answered
	case validID && m.Method == "" && m.Params == nil && (m.Result != nil || m.Error != nil):
		return nil // a response object: nothing to answer
	case validID && m.Method != "":
		return []slot{{ID: canonJSON(m.ID), IsCall: true}}
	case validID:
		return []slot{{ID: canonJSON(m.ID)}}
	default:
		return []slot{{ID: "null"}}
	}
}

func expectValue(v json.RawMessage) valueExpect {
	trim := bytes.TrimSpace(v)
	if len(trim) > 0 && trim[0] == '[' {
		var elems []json.RawMessage
		dec := json.NewDecoder(bytes.NewReader(v))
		dec.UseNumber()
		if err := dec.Decode(&elems); err != nil {
			// cannot happen for a syntactically valid array below the nesting limit
			return valueExpect{Batch: true, Slots: []slot{{ID: "null"}}}
		}
		if len(elems) == 0 {
			return valueExpect{Batch: false, Slots: []slot{{ID: "null"}}} // "empty batch" is answered with a single error object
		}
		ve := valueExpect{Batch: true}
		for _, e := range elems {
			ve.Slots = append(ve.Slots, expectFor(e)...)
		}
		return ve
	}
	return valueExpect{Slots: expectFor(v)}
}

// splitStream cuts the bytes into complete JSON values; terminal is "clean", "incomplete" or "syntax".
func splitStream(body []byte) (values []json.RawMessage, terminal string) {
	dec := json.NewDecoder(bytes.NewReader(body))
	dec.UseNumber()
	for {
		var raw json.RawMessage
		err := dec.Decode(&raw)
		switch {
		case err == nil:
			values = append(values, raw)
		case err == io.EOF:
			return values, "clean"
		case err == io.ErrUnexpectedEOF:
			return values, "incomplete"
		default:
			return values, "syntax"
		}
	}
}

type gotResp struct {
	ID      string
	IsErr   bool
	Code    string
	Result  string // canonical
	Problem string // non-empty: not a well-formed JSON-RPC 2.0 response object
}

func parseResp(raw json.RawMessage) gotResp {
	var obj map[string]json.RawMessage
	if err := json.Unmarshal(raw, &obj); err != nil {
		return gotResp{Problem: "response is not a JSON object: " + clip(string(raw), 120)}
	}
	var g gotResp
	if v, ok := obj["jsonrpc"]; !ok || string(v) != `"2.0"` {
		g.Problem = "missing jsonrpc:\"2.0\""
	}
	id, ok := obj["id"]
	if !ok {
		g.Problem = "response without id"
	} else {
		g.ID = canonJSON(id)
	}
	res, hasRes := obj["result"]
	er, hasErr := obj["error"]
	switch {
	case hasRes && hasErr:
		g.Problem = "response with both result and error"
	case !hasRes && !hasErr:
		g.Problem = "response with neither result nor error"
	case hasErr:
		g.IsErr = true
		var eo struct {
			Code    *json.Number `json:"code"`
			Message *string      `json:"message"`
		}
		if err := json.Unmarshal(er, &eo); err != nil || eo.Code == nil || eo.Message == nil {
			g.Problem = "malformed error object: " + clip(string(er), 120)
		} else {
			g.Code = eo.Code.String()
		}
	default:
		g.Result = canonJSON(res)
	}
	for k := range obj {
		switch k {
		case "jsonrpc", "id", "result", "error":
		default:
			g.Problem = "unexpected member " + k
		}
	}
	return g
}

func joinRaw(ms []json.RawMessage) string {
	var sb strings.Builder
	for i, m := range ms {
		if i > 0 {
			sb.WriteByte(' ')
		}
		sb.Write(m)
	}
	return sb.String()
}

func clip(s string, n int) string {
	if len(s) > n {
		return s[:n] + "…"
	}
	return s
}

// matchResponses checks the responses received for one JSON value against what is owed. Returns problem ("" = fine) and an
// outcome label.
func (e *rpcEnv) matchResponses(c *creq, ve valueExpect, raws []json.RawMessage, first bool) (problem, outcome string) {
	// flatten: a batch is answered by one array
	var resps []json.RawMessage
	if ve.Batch && len(ve.Slots) > 0 {
		if len(raws) != 1 {
			return fmt.Sprintf("batch owed one array response, got %d message(s)", len(raws)), "bad"
		}
		if err := json.Unmarshal(raws[0], &resps); err != nil {
			return "batch answered with a non-array: " + clip(string(raws[0]), 120), "bad"
		}
	} else {
		resps = raws
	}
	if len(resps) != len(ve.Slots) {
		return fmt.Sprintf("%d response(s) owed, %d received: %s", len(ve.Slots), len(resps), clip(joinRaw(resps), 200)), "bad"
	}
	if len(ve.Slots) == 0 {
		return "", "no-response-owed"
	}
	owed := map[string]int{}
	calls := map[string]bool{}
	for _, s := range ve.Slots {
		owed[s.ID]++
		if s.IsCall {
			calls[s.ID] = true
		}
	}
	var labels []string
	for i, raw := range resps {
		g := parseResp(raw)
		if g.Problem != "" {
			return g.Problem, "bad"
		}
		if owed[g.ID] == 0 {
			return fmt.Sprintf("response carries id %s which no outstanding request has", clip(g.ID, 60)), "bad"
		}
		owed[g.ID]--
		if !g.IsErr && !calls[g.ID] {
			return fmt.Sprintf("a result was returned for something that is not a call (id %s)", clip(g.ID, 60)), "bad"
		}
		if g.IsErr {
			labels = append(labels, "error"+g.Code)
		} else {
			labels = append(labels, "result")
		}
		if first && i == 0 && !ve.Batch {
			if c.ExpectErr && !g.IsErr {
				return "the call was answered with a result although its parameters are unusable: " + clip(g.Result, 160), "bad"
			}
			if strings.HasPrefix(c.Expect, "directpaged:") {
				if p := e.directPaged(c.Expect, g, raw); p != "" {
					return p, "bad"
				}
			} else if c.Expect != "" {
				want := c.Expect
				wantErr := ""
				if strings.HasPrefix(want, "direct:") {
					want, wantErr = e.directExpect(want)
				}
				switch {
				case wantErr != "" && !g.IsErr:
					return "direct call fails (" + wantErr + ") but the server returned a result", "bad"
				case wantErr == "" && g.IsErr:
					return "the valid call was answered with error " + g.Code + ": " + clip(string(raw), 200), "bad"
				case wantErr == "" && g.Result != want:
					return "result differs from the direct call's: got " + clip(g.Result, 160) + " want " + clip(want, 160), "bad"
				}
			}
		}
	}
	sort.Strings(labels)
	if len(labels) > 3 {
		// summarise batches
		cnt := map[string]int{}
		for _, l := range labels {
			cnt[l]++
		}
		labels = labels[:0]
		for l := range cnt {
			labels = append(labels, l+"*")
		}
		sort.Strings(labels)
	}
	return "", strings.Join(labels, ",")
}

// directExpect evaluates "direct:<instance label>:<a>:<b>" by calling the api method directly.
func (e *rpcEnv) directExpect(spec string) (want string, wantErr string) {
	parts := strings.Split(strings.TrimPrefix(spec, "direct:"), ":")
	label := strings.Join(parts[:len(parts)-2], ":")
	var a, b uint64
	fmt.Sscan(parts[len(parts)-2], &a)
	fmt.Sscan(parts[len(parts)-1], &b)
	res, err, pan := e.directRaw(label, a, b)
	if pan != nil {
		return "", fmt.Sprintf("panic: %v", pan)
	}
	if err != nil {
		return "", err.Error()
	}
	return canonJSON(mustJSON(res)), ""
}

func (e *rpcEnv) directRaw(label string, a, b uint64) (res interface{}, err error, pan interface{}) {
	defer func() {
		if p := recover(); p != nil {
			pan = p
		}
	}()
	z := &zAdapter{e.ci.n}
	switch label {
	case "ledger.getAccountBlocksByPage(user1)":
		res, err = e.ledger.GetAccountBlocksByPage(u1, uint32(a), uint32(b))
	case "ledger.getAccountBlocksByHeight(user1)":
		res, err = e.ledger.GetAccountBlocksByHeight(u1, a, b)
	case "ledger.getMomentumsByHeight":
		res, err = e.ledger.GetMomentumsByHeight(a, b)
	case "embedded.token.getAll":
		res, err = embedded.NewTokenApi(z).GetAll(uint32(a), uint32(b))
	case "embedded.accelerator.getAll":
		res, err = embedded.NewAcceleratorApi(z).GetAll(uint32(a), uint32(b))
	case "embedded.pillar.getFrontierRewardByPage(pillar1)":
		res, err = embedded.NewPillarApi(z, true).GetFrontierRewardByPage(p1addr, uint32(a), uint32(b))
	case "embedded.stake.getEntriesByAddress(user1)":
		res, err = embedded.NewStakeApi(z).GetEntriesByAddress(u1, uint32(a), uint32(b))
	case "embedded.pillar.getPillarEpochHistory(TEST-pillar-1)":
		res, err = embedded.NewPillarApi(z, true).GetPillarEpochHistory("TEST-pillar-1", uint32(a), uint32(b))
	default:
		panic("directRaw: unknown label " + label)
	}
	if err == nil && (res == nil || reflect.ValueOf(res).IsNil()) {
		res = nil
	}
	return
}

// ---------------------------------------------------------------------------------------------------------------------
// transports

const hangTimeout = 120 * time.Second

type tResult struct {
	Problem string // "" = fine
	Key     string // violation key suffix when Problem != ""
	Outcome string
}

func (e *rpcEnv) httpOnce(c *creq) (rec *httptest.ResponseRecorder, pan interface{}, hung bool) {
	method := c.HTTPMethod
	if method == "" {
		method = "POST"
	}
	var body io.Reader = bytes.NewReader(c.Body)
	if c.NoLength {
		body = struct{ io.Reader }{bytes.NewReader(c.Body)} // httptest cannot tell the length: ContentLength = -1
	}
	req := httptest.NewRequest(method, "http://c18.test/", body)
	switch c.ContentType {
	case "":
		req.Header.Set("Content-Type", "application/json")
	case "-":
	default:
		req.Header.Set("Content-Type", c.ContentType)
	}
	rec = httptest.NewRecorder()
	done := make(chan interface{}, 1)
	go func() {
		defer func() { done <- recover() }()
		e.srv.ServeHTTP(rec, req)
	}()
	select {
	case pan = <-done:
		return rec, pan, false
	case <-time.After(hangTimeout):
		return nil, nil, true
	}
}

func (e *rpcEnv) doHTTP(c *creq) tResult {
	rec, pan, hung := e.httpOnce(c)
	if hung {
		rec, pan, hung = e.httpOnce(c)
		if hung {
			return tResult{"ServeHTTP did not return within 2 minutes, twice", "hang", "hang"}
		}
	}
	if pan != nil {
		return tResult{fmt.Sprintf("ServeHTTP panicked: %v", pan), "panic-in-ServeHTTP", "panic"}
	}
	status := rec.Code
	bodyBytes := rec.Body.Bytes()
	if c.WantStatus != 0 {
		if status != c.WantStatus {
			return tResult{fmt.Sprintf("expected http status %d, got %d with body %s", c.WantStatus, status, clip(string(bodyBytes), 120)), "wrong-http-status", "bad"}
		}
		return tResult{Outcome: fmt.Sprintf("http%d", status)}
	}
	if status < 200 || status > 299 {
		return tResult{Outcome: fmt.Sprintf("http%d", status)} // an HTTP error status is an error answer
	}
	// what the body owes: only the first JSON value of the body is a request
	in := c.Body
	if len(in) > 5*1024*1024 {
		in = in[:5*1024*1024] // documented: the body is read up to maxRequestContentLength
	}
	if (c.HTTPMethod == "GET" && len(c.Body) == 0) || len(bytes.TrimSpace(in)) == 0 {
		if len(bytes.TrimSpace(bodyBytes)) != 0 {
			return tResult{"empty request answered with a body: " + clip(string(bodyBytes), 120), "http-body-for-empty-request", "bad"}
		}
		return tResult{Outcome: "empty-request-empty-200"}
	}
	values, terminal := splitStream(in)
	outVals, outTerminal := splitStream(bodyBytes)
	if outTerminal != "clean" {
		return tResult{"response body is not a sequence of complete JSON values: " + clip(string(bodyBytes), 160), "http-malformed-response-body", "bad"}
	}
	if len(values) == 0 {
		// malformed or truncated JSON: exactly one error response with a null id
		if len(outVals) != 1 {
			return tResult{fmt.Sprintf("malformed JSON (%s) must be answered with one error response, got %d message(s): %s", terminal, len(outVals), clip(string(bodyBytes), 120)), "http-no-error-response-for-malformed-json", "bad"}
		}
		g := parseResp(outVals[0])
		if g.Problem != "" || !g.IsErr || g.ID != "null" {
			return tResult{"malformed JSON answered with " + clip(string(outVals[0]), 160) + " " + g.Problem, "http-bad-error-response-for-malformed-json", "bad"}
		}
		return tResult{Outcome: "parse-error" + g.Code}
	}
	ve := expectValue(values[0])
	problem, outcome := e.matchResponses(c, ve, outVals, true)
	if problem != "" {
		return tResult{problem, "http-wrong-response", "bad"}
	}
	return tResult{Outcome: outcome}
}

// doPipe drives one connection: request bytes, then (when the stream is still in sync) the sentinel on the same connection.
func (e *rpcEnv) doPipe(c *creq) tResult {
	// the server's write deadline (10 s) and this driver's timeouts are the only clocks involved: a failure is reported
	// only when it repeats
	res := e.pipeOnce(c)
	if res.Problem != "" {
		res = e.pipeOnce(c)
	}
	return res
}

func (e *rpcEnv) pipeOnce(c *creq) tResult {
	cli, srvSide := net.Pipe()
	served := make(chan interface{}, 1)
	go func() {
		defer func() { served <- recover() }()
		e.srv.ServeCodec(rpcserver.NewCodec(srvSide), 0)
	}()
	type rd struct {
		raw json.RawMessage
		err error
	}
	inbox := make(chan rd, 1024)
	go func() {
		dec := json.NewDecoder(cli)
		dec.UseNumber()
		for {
			var raw json.RawMessage
			err := dec.Decode(&raw)
			inbox <- rd{raw, err}
			if err != nil {
				return
			}
		}
	}()
	writeDone := make(chan error, 1)
	values, terminal := splitStream(c.Body)
	syncOK := terminal == "clean"
	go func() {
		_, err := cli.Write(append(append([]byte{}, c.Body...), '\n'))
		if err == nil && syncOK {
			_, err = cli.Write(append(append([]byte{}, e.sentinelBody...), '\n'))
		}
		writeDone <- err
	}()
	finish := func(t tResult) tResult {
		cli.Close()
		select {
		case p := <-served:
			if p != nil && t.Problem == "" {
				return tResult{fmt.Sprintf("ServeCodec panicked: %v", p), "panic-in-ServeCodec", "panic"}
			}
		case <-time.After(hangTimeout):
			if t.Problem == "" {
				return tResult{"ServeCodec did not return within 2 minutes after the connection was closed", "hang", "hang"}
			}
		}
		return t
	}
	// what is owed: per complete value its slots; then a parse error (syntax) ; then the sentinel (clean)
	var owedMsgs int
	var ves []valueExpect
	for _, v := range values {
		ve := expectValue(v)
		ves = append(ves, ve)
		if ve.Batch && len(ve.Slots) > 0 {
			owedMsgs++
		} else if !ve.Batch {
			owedMsgs += len(ve.Slots)
		}
	}
	extra := 0
	if terminal == "syntax" {
		extra = 1
	}
	if syncOK {
		extra = 1
	}
	var got []json.RawMessage
	closed := false
	timeout := time.After(hangTimeout)
	for len(got) < owedMsgs+extra && !closed {
		select {
		case m := <-inbox:
			if m.err != nil {
				closed = true
			} else {
				got = append(got, m.raw)
			}
		case <-timeout:
			return finish(tResult{fmt.Sprintf("%d message(s) owed, %d received after 2 minutes", owedMsgs+extra, len(got)), "hang", "hang"})
		}
	}
	if len(got) < owedMsgs+extra {
		return finish(tResult{fmt.Sprintf("connection closed by the server after %d of %d owed message(s) (stream %s): %s", len(got), owedMsgs+extra, terminal, clip(joinRaw(got), 200)), "pipe-missing-response", "bad"})
	}
	// assign messages: responses may arrive in any order across values; match greedily by ids
	remaining := append([]json.RawMessage{}, got...)
	take := func(pred func(json.RawMessage) bool) json.RawMessage {
		for i, m := range remaining {
			if pred(m) {
				remaining = append(remaining[:i:i], remaining[i+1:]...)
				return m
			}
		}
		return nil
	}
	sentinelOK := false
	if syncOK {
		m := take(func(m json.RawMessage) bool { return parseResp(m).ID == `"c18-sentinel"` })
		if m == nil {
			return finish(tResult{"the sentinel call on the same connection was not answered: " + clip(joinRaw(got), 200), "pipe-sentinel-unanswered", "bad"})
		}
		if g := parseResp(m); g.Problem != "" || g.IsErr || g.Result != e.sentinelExpect {
			return finish(tResult{"the sentinel call on the same connection was answered wrongly: " + clip(string(m), 200), "pipe-sentinel-wrong", "bad"})
		}
		sentinelOK = true
	}
	if terminal == "syntax" {
		m := take(func(m json.RawMessage) bool {
			g := parseResp(m)
			return g.IsErr && g.ID == "null" && g.Code == "-32700"
		})
		if m == nil {
			return finish(tResult{"malformed JSON on the stream was not answered with a parse error: " + clip(joinRaw(got), 200), "pipe-no-parse-error", "bad"})
		}
	}
	var outcomes []string
	for i, ve := range ves {
		var mine []json.RawMessage
		if ve.Batch && len(ve.Slots) > 0 {
			if m := take(func(m json.RawMessage) bool { t := bytes.TrimSpace(m); return len(t) > 0 && t[0] == '[' }); m != nil {
				mine = append(mine, m)
			}
		} else {
			for _, s := range ve.Slots {
				s := s
				if m := take(func(m json.RawMessage) bool {
					t := bytes.TrimSpace(m)
					return len(t) > 0 && t[0] == '{' && parseResp(m).ID == s.ID
				}); m != nil {
					mine = append(mine, m)
				}
			}
		}
		problem, outcome := e.matchResponses(c, ve, mine, i == 0)
		if problem != "" {
			return finish(tResult{problem + " | all messages: " + clip(joinRaw(got), 200), "pipe-wrong-response", "bad"})
		}
		outcomes = append(outcomes, outcome)
	}
	if len(remaining) > 0 {
		return finish(tResult{"unsolicited message(s): " + clip(joinRaw(remaining), 200), "pipe-unsolicited-message", "bad"})
	}
	out := strings.Join(outcomes, "+")
	switch terminal {
	case "syntax":
		out += "+parse-error-then-close"
	case "incomplete":
		out += "+incomplete-closed-by-client"
	}
	if sentinelOK {
		out += "+sentinel"
	}
	t := finish(tResult{Outcome: out})
	select {
	case <-writeDone:
	default:
	}
	return t
}

// sentinelHTTP: a valid call on the same server must still be answered correctly.
func (e *rpcEnv) sentinelHTTP() string {
	c := &creq{Class: "sentinel", Body: e.sentinelBody, Expect: e.sentinelExpect}
	t := e.doHTTP(c)
	return t.Problem
}

func classFamily(class string) string {
	parts := strings.SplitN(class, ":", 3)
	if parts[0] == "truncate" {
		return "truncate:" + strings.SplitN(parts[1], "@", 2)[0]
	}
	if parts[0] == "matrix" || parts[0] == "wrongtype" {
		return parts[0] + ":" + parts[1]
	}
	return parts[0]
}

var _ = http.StatusOK
