package c09

import (
	"fmt"
	"runtime/debug"
	"strings"

	"github.com/zenon-network/go-zenon/chain/nom"
	"github.com/zenon-network/go-zenon/common/types"

	"verifmc/internal/vnode"
)

// safeAutoReceive drives the producer path for one inbox entry: Supervisor.GenerateAutoReceive, exactly what
// pillar.worker.generateNext calls, with the panic captured as an observation.
func safeAutoReceive(n *vnode.Node, send *nom.AccountBlock) (res *recvResult) {
	res = &recvResult{Send: send}
	defer func() {
		if r := recover(); r != nil {
			res.Panic = r
			res.Stack = string(debug.Stack())
		}
	}()
	res.Exec, res.Err = n.Sup.GenerateAutoReceive(send)
	return res
}

// failed tells whether the producer could not make a receive block (the three ways worker.generateNext fails).
func (r *recvResult) failed() bool {
	return r.Panic != nil || r.Err != nil || r.Exec == nil || r.Exec.Transaction == nil || r.Exec.Transaction.Block == nil
}

// site names the repository function in which the panic was raised (first frame below the runtime and the
// DealWithErr/RecoverStack helpers), for root-cause keys.
func (r *recvResult) site() string {
	lines := strings.Split(r.Stack, "\n")
	seenPanic := false
	for _, l := range lines {
		if strings.HasPrefix(l, "panic(") {
			seenPanic = true
			continue
		}
		if !seenPanic || strings.HasPrefix(l, "\t") || l == "" {
			continue
		}
		if strings.HasPrefix(l, "runtime.") || strings.Contains(l, "common.DealWithErr") || strings.Contains(l, "common.RecoverStack") ||
			strings.HasPrefix(l, "math/big.") || strings.HasPrefix(l, "reflect.") {
			seenPanic = true
			continue
		}
		// github.com/zenon-network/go-zenon/vm/embedded/implementation.(*X).ReceiveBlock(...)
		f := l
		if i := strings.LastIndex(f, "("); i > 0 {
			f = f[:i]
		}
		if i := strings.LastIndex(f, "/"); i >= 0 {
			f = f[i+1:]
		}
		f = strings.NewReplacer("(*", "", ")", "").Replace(f)
		return f
	}
	return "unknown-site"
}

func (r *recvResult) describe() string {
	switch {
	case r.Panic != nil:
		return fmt.Sprintf("GenerateAutoReceive panicked in %s: %v", r.site(), r.Panic)
	case r.Err != nil:
		return fmt.Sprintf("GenerateAutoReceive returned internal error: %v", r.Err)
	case r.Exec == nil || r.Exec.Transaction == nil || r.Exec.Transaction.Block == nil:
		return "GenerateAutoReceive returned no transaction"
	}
	if r.Exec.ReturnedError != nil {
		return fmt.Sprintf("receive generated, method returned %v", r.Exec.ReturnedError)
	}
	return "receive generated, method succeeded"
}

// safeStep is one producer event without the pillar goroutine: the elected pillar's momentum, then, like
// pillar.worker.work, rounds over all embedded contracts generating and inserting the receive block for each inbox head
// until no inbox has a confirmed entry left. It stops at the first entry the producer cannot process (as the worker
// does). Returns every receive generation it ran.
func safeStep(n *vnode.Node) (out []*recvResult, err error) {
	if err := n.ProduceMomentumOnly(0); err != nil {
		return nil, err
	}
	return drainInboxes(n)
}

func drainInboxes(n *vnode.Node) (out []*recvResult, err error) {
	for round := 0; round < 64; round++ {
		one := false
		for _, ca := range types.EmbeddedContracts {
			head := inboxHead(n, ca)
			if head == nil {
				continue
			}
			r := safeAutoReceive(n, head)
			out = append(out, r)
			if r.failed() {
				return out, nil
			}
			if ierr := insertTx(n, r.Exec.Transaction); ierr != nil {
				r.InsErr = ierr
				return out, nil
			}
			r.Inserted = true
			one = true
		}
		if !one {
			return out, nil
		}
	}
	return out, fmt.Errorf("inboxes not drained after 64 rounds")
}
