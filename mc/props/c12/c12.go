// Package c12 checks property C12 (plasma and proof-of-work: no block is accepted without paying its cost).
//
// Part (a), pow.go: the verifier's PoW decision (pow.CheckPoWNonce, and its threshold/comparison helpers through the
// overlay) against a math/big reference over a stated difficulty × nonce domain, plus the plasma conversions.
// Part (b), acct.go: explicit-state exploration of one account's unconfirmed block sequences on a real node against a
// reference model of the plasma accounting.
package c12

import (
	"encoding/json"
	"fmt"
	"os"
	"sort"
	"strconv"
	"strings"
	"time"

	"verifmc/internal/vnode"
	"verifmc/internal/xs"
)

type bounds struct {
	nonces     int    // enumerated nonces 0..n-1 per (difficulty, subject)
	searchMax  uint64 // difficulties up to this are also met by deterministic search
	depth      int    // max blocks per sequence
	mMax       int    // max momentums per sequence
	leafM      bool
	richFrom   int
	plusOne    bool
	postMDepth int
	heavy      map[string][]uint64 // per configuration: plasma amounts bought by the heavy PoW options at the root state
}

func boundsOf(thorough bool) bounds {
	if thorough {
		return bounds{nonces: 4096, searchMax: 1 << 23, depth: 4, mMax: 1, leafM: true, richFrom: 2, plusOne: false, postMDepth: 2,
			heavy: map[string][]uint64{"F0": {512, refBasePlasma}, "F1": {512, refBasePlasma}, "F10": {512, refBasePlasma}, "F5000": {512}}}
	}
	return bounds{nonces: 256, searchMax: 1 << 20, depth: 3, mMax: 1, leafM: false, richFrom: 2, plusOne: true, postMDepth: 1, heavy: map[string][]uint64{"F0": {512}, "F10": {512}}}
}

// (QSR fused and later cancelled, base blocks the account had confirmed while the fusion was active)
func staleScenarios(thorough bool) [][2]int64 {
	if thorough {
		return [][2]int64{{10, 0}, {25, 0}, {25, 1}, {25, 2}, {5000, 0}, {5000, 2}}
	}
	return [][2]int64{{10, 0}, {25, 0}, {25, 1}}
}

const convChunk = 1 << 22

func convUpper() uint64 { return refMaxPowPlasma*refDiffPerPlasma + 1<<20 }

func run(c *xs.Ctx, r *xs.Result) {
	vnode.Quiet()
	ownGlobals()
	b := boundsOf(c.Thorough())
	if c.Replay != nil {
		replay(c, r, b)
		return
	}
	// the last priceShards workers do the price part (one spork regime each: process globals) and nothing else; the other
	// parts are dealt round-robin to the workers before them
	base := c.NShards
	if c.NShards > priceShards {
		base = c.NShards - priceShards
		if c.Shard >= base {
			pricePart(c, r, c.Shard-base, nil)
			return
		}
	} else {
		r.Note("price part not run: it needs %d worker processes of its own", priceShards)
	}
	item := 0
	next := func() bool {
		mine := base <= 1 || item%base == c.Shard
		item++
		return mine
	}

	if next() {
		originPart(c, r, nil)
	}

	// ---- part (a)
	t0 := time.Now()
	ds := powDifficulties()
	subs := powSubjects(b.nonces)
	if next() {
		convPoints(r, ds)
		r.Sample(map[string]interface{}{"part": "pow", "difficulties": len(ds), "first": fmt.Sprint(ds[:4]), "last": fmt.Sprint(ds[len(ds)-4:]), "nonces_per_difficulty_and_subject": b.nonces,
			"subjects": []string{fmt.Sprintf("%v/%v", subs[0].Addr, subs[0].Prev), fmt.Sprintf("%v/%v", subs[1].Addr, subs[1].Prev)}})
	}
	// the smallest instance of each 64-bit-range class is decided by every shard first, so that a finding in that class is
	// reported with the same minimal input whichever shard meets it (not counted as evaluations)
	for _, d := range []uint64{1 << 63, ^uint64(0)} {
		s := subs[0]
		for n := uint64(0); n < 4; n++ {
			code, ref := codeCheck(s, d, n), refValid(d, s.work[n])
			if code != ref {
				powMismatch(r, 0, s, d, n, code, ref)
			}
		}
	}
	// heavy (searched) difficulties first so that they do not all end up at the tail of one shard
	order := make([]int, len(ds))
	for i := range order {
		order[i] = len(ds) - 1 - i
	}
	for _, i := range order {
		if !next() {
			continue
		}
		if c.Expired() {
			r.Incomplete = true
			r.Note("deadline reached in the PoW part at difficulty index %d", i)
			break
		}
		powOne(r, subs, ds[i], b.searchMax)
	}
	r.Count("ms_pow", time.Since(t0).Milliseconds())
	// ---- part (b)
	t0 = time.Now()
	runAcct(c, r, b, next)
	for _, sc := range staleScenarios(c.Thorough()) {
		if next() && !c.Expired() {
			runStale(c, r, sc[0], int(sc[1]))
		}
	}
	r.Count("ms_acct", time.Since(t0).Milliseconds())
	t0 = time.Now()
	defer func() { r.Count("ms_conv", time.Since(t0).Milliseconds()) }()
	for lo := uint64(0); lo < convUpper(); lo += convChunk {
		if !next() {
			continue
		}
		if c.Expired() {
			r.Incomplete = true
			break
		}
		hi := lo + convChunk
		if hi > convUpper() {
			hi = convUpper()
		}
		convDifficultyRange(r, lo, hi)
	}
}

func runAcct(c *xs.Ctx, r *xs.Result, b bounds, next func() bool) {
	var kindIdx []int
	for i, k := range kinds {
		if !k.Thorough || c.Thorough() {
			kindIdx = append(kindIdx, i)
		}
	}
	cfgs := acctCfgs(c.Thorough())
	// heavy proof-of-work items first (the largest is a 31.5M-hash search)
	for ci, cfg := range cfgs {
		for _, w := range b.heavy[cfg.Name] {
			if !next() {
				continue
			}
			x := &explorer{c: c, r: r, cfgIdx: ci, cfg: cfg, kinds: kindIdx, depth: b.depth, mMax: 0, seen: map[string]bool{}, seenM: map[string]bool{}}
			e := newEnv(c, cfg)
			t0 := time.Now()
			x.evaluate(e, e.rootState(), nil, 1, fullPow, w, false)
			if d := time.Since(t0); d > 5*time.Second {
				r.Note("heavy PoW item %s W=%d: %.1fs", cfg.Name, w, d.Seconds())
			}
			e.n.Destroy()
		}
	}
	for ci, cfg := range cfgs {
		if c.Expired() {
			r.Incomplete = true
			r.Note("deadline reached before configuration %s", cfg.Name)
			return
		}
		x := &explorer{c: c, r: r, cfgIdx: ci, cfg: cfg, kinds: kindIdx, depth: b.depth, mMax: b.mMax, leafMomentum: b.leafM, richFrom: b.richFrom, extPlusOne: b.plusOne, postMDepth: b.postMDepth, seen: map[string]bool{}, seenM: map[string]bool{}}
		e := newEnv(c, cfg)
		st := e.rootState()
		// every shard evaluates the root (cheap) to learn the list of root successors; only its owner records it
		owner := next()
		if !owner {
			x.r = xs.NewResult()
			x.noInsert = true
		}
		reps, nn := x.evaluate(e, st, nil, b.depth, normalPow, 0, !owner)
		x.r = r
		x.noInsert = false
		mine := make([]bool, len(reps))
		any := false
		for i := range reps {
			mine[i] = next()
			any = any || mine[i]
		}
		if any {
			x.descend(e, st, nil, b.depth, reps, nn, func(i int) bool { return mine[i] })
		}
		e.n.Destroy()
	}
}

func replay(c *xs.Ctx, r *xs.Result, b bounds) {
	r.Count("replay", 1)
	var head struct {
		Part string `json:"part"`
	}
	if err := json.Unmarshal(c.Replay, &head); err != nil {
		panic(err)
	}
	switch head.Part {
	case "pow":
		var rep powReplay
		if err := json.Unmarshal(c.Replay, &rep); err != nil {
			panic(err)
		}
		d, err1 := strconv.ParseUint(rep.D, 10, 64)
		nonce, err2 := strconv.ParseUint(rep.Nonce, 10, 64)
		if err1 != nil || err2 != nil {
			panic(fmt.Sprint("bad replay numbers: ", err1, err2))
		}
		s := powSubjects(1)[rep.Subj]
		// this one nonce first, then target + comparison for the difficulty
		code, ref := codeCheck(s, d, nonce), refValid(d, refWork(nonce, &s.dh))
		r.Count("pow_evaluations", 1)
		if code != ref {
			powMismatch(r, rep.Subj, s, d, nonce, code, ref)
		}
		one := []*powSubject{{Addr: s.Addr, Prev: s.Prev, dh: s.dh, work: nil}}
		powOne(r, one, d, 0)
	case "conv":
		ds := powDifficulties()
		convPoints(r, ds)
		var rep struct {
			D string `json:"d"`
		}
		json.Unmarshal(c.Replay, &rep)
		if d, err := strconv.ParseUint(rep.D, 10, 64); err == nil && rep.D != "" {
			lo := uint64(0)
			if d > 2 {
				lo = d - 2
			}
			if d < ^uint64(0)-4 {
				convDifficultyRange(r, lo, d+2)
			}
		}
	case "acct":
		var rep acctReplay
		if err := json.Unmarshal(c.Replay, &rep); err != nil {
			panic(err)
		}
		var kindIdx []int
		for i := range kinds {
			kindIdx = append(kindIdx, i)
		}
		x := &explorer{c: c, r: r, cfg: rep.Cfg, kinds: kindIdx, depth: b.depth, richFrom: 0, seen: map[string]bool{}, seenM: map[string]bool{}}
		e, st := x.replayPath(rep.Path, true)
		if rep.Cand != nil {
			nn := e.nonces(st, rep.Heavy)
			x.evalOne(e, st, rep.Path, *rep.Cand, nn, rep.Heavy)
		}
		e.n.Destroy()
	case "origin":
		var rep originReplay
		if err := json.Unmarshal(c.Replay, &rep); err != nil {
			panic(err)
		}
		originPart(c, r, &rep)
	case "price":
		var rep priceReplay
		if err := json.Unmarshal(c.Replay, &rep); err != nil {
			panic(err)
		}
		pricePart(c, r, rep.Regime, &rep)
	case "stale":
		var rep staleReplay
		if err := json.Unmarshal(c.Replay, &rep); err != nil {
			panic(err)
		}
		runStale(c, r, rep.QSR, rep.Before)
	default:
		panic("unknown replay part " + head.Part)
	}
}

const rule = "PoW: every difficulty d of {1..4096} ∪ {2^k−1,2^k,2^k+1 : k=1..64, ≤ 2^64−1} ∪ {least difficulty buying each base cost, ±1} × nonces 0..N−1 (little endian; N=256 quick, 4096 thorough) × 2 (address, previous hash) subjects " +
	"through pow.CheckPoWNonce vs. the math/big reference work ≥ 2^64−⌊2^64/d⌋; for d ≤ searchMax (2^20 quick, 2^23 thorough) also the least valid nonce (found by counting up from 0), the least claim that nonce does NOT support and the claim just below it; " +
	"getTargetByDifficulty/greaterDifficulty at threshold−1/threshold/threshold+1, 0, 2^64−1 and byte-reversed values; DifficultyToPlasma on every difficulty 0..max+2^20 and on the sparse 64-bit set, its inverse on every plasma 0..94502, FussedAmountToPlasma at every unit boundary ±1 and around 2^63/2^64. " +
	"Accounting (explicit-state search on a real node per fused-QSR configuration {0,1,10,11,25,5000,5001}(+{541,4999} thorough)): in every expanded model state (committed, Σ unconfirmed fused, #unconfirmed, blocks left, momentums used) every candidate " +
	"block kind × FusedPlasma ∈ {0,base−4,base−3,base−1,base,base+1,avail,avail+1,cap,cap+1}(+{1,avail−1,cap−1,2^64−4,2^64−1} in the rich domain) × PoW option ∈ {none, 6000 valid, 5999 valid, 6000 bad nonce, 2^63 bad nonce}(+{1500 valid, 2^64−1 bad nonce} rich; +{W·1500 valid, W·1500−1, W·1500 bad nonce} for W=512 and W=21000 at selected root states) " +
	"is decided by the real ApplyBlock, compared with the reference model, and when accepted inserted into the pool and the plasma counters compared; sequences are continued (depth ≤ 3 quick / 4 thorough blocks) through one representative per distinct successor model state reached by an 'extension' block " +
	"(fused = base, base−4 topped up by PoW, everything left; quick also base+1), kind-relative fused amounts in non-decreasing order only (the model is commutative in them); every continued state is also confirmed by a momentum on a rebuilt node (committed counter must move by exactly the confirmed fused plasma) and explored 1 (quick) / 2 (thorough) blocks further. " +
	"Acknowledged-momentum dimension: fuse, (0–2 confirmed blocks), cancel; then kind ∈ {send, receive} × boundary FusedPlasma × every momentum height as acknowledged momentum. " +
	"distinct_nontrivial = (PoW difficulties for which both an accepted and a rejected nonce were observed) + (accounting model states in which at least one candidate was accepted and at least one rejected), each counted once by set membership."

func init() {
	xs.Register(&xs.Check{
		ID:    "C12",
		Level: "exploration",
		Shards: func(tier string) int {
			return 16 + priceShards
		},
		Budget: func(tier string) time.Duration {
			if tier == "thorough" {
				return 14 * time.Minute
			}
			return 150 * time.Second
		},
		Assumptions: []string{
			"mock genesis (chain id 100, no sporks active: original embedded method table); test account = mock User6 (no fusion at genesis), fusions made by User1 through the plasma contract and confirmed by the mock pillars",
			"constants.FuseMinAmount is lowered to 1 QSR in the worker processes so that a fusion smaller than one base block (2100 plasma) exists; all other plasma constants are the repository's; the reference uses its own independently written table of the same numbers",
			"the hash primitive (sha3-256 from golang.org/x/crypto) and ed25519 are trusted; the reference is independent in arithmetic only",
			"blocks are hand-built, hashed and signed by the check and decided by vm.Supervisor.ApplyBlock followed by chain.AddAccountBlockTransaction (what protocol.ChainBridge.AddAccountBlocks does); siblings explored at the same height are replaced with the pool's ForceAddAccountBlockTransaction",
			"constants.FuseExpiration is lowered to 2 momentums in the worker processes so that a fusion can be cancelled inside a short history (used only by the acknowledged-momentum scenarios)",
			"in the main exploration every block acknowledges the frontier momentum; rejections are not required to be justified (only counted per reason)",
			"state-space reduction: one concrete history per reference-model state; kind-relative fused amounts only in non-decreasing order (commutativity of the reference model)",
		},
		Rule: rule,
		Run:  run,
		Finish: func(tier string, m *xs.Result, ev *xs.Evidence) {
			cnt := m.Counters
			evals := cnt["pow_evaluations"] + cnt["pow_target_evaluations"] + cnt["pow_compare_evaluations"] + cnt["conv_difficulty_evaluations"] +
				cnt["conv_inverse_evaluations"] + cnt["conv_fused_evaluations"] + cnt["acct_candidates"] + cnt["acct_momentums"] + cnt["stale_candidates"]
			ev.Coverage["evaluations"] = evals
			ev.Coverage["distinct_nontrivial"] = len(m.Sets["nontrivial"])
			delete(ev.Coverage, "distinct_nontrivial_set")
			ev.Coverage["states"] = len(m.Sets["acct_states"])
			ev.Coverage["transitions"] = cnt["transitions"]
			ev.Coverage["traces_validated_against_impl"] = cnt["transitions"]
			ev.Coverage["explanation"] = "states/transitions refer to the accounting part: states = distinct (configuration, model state) pairs whose whole candidate domain was executed on a real node; transitions = candidate blocks decided by the real ApplyBlock (+ confirming momentums), each compared with the reference model"
			var reasons []string
			for k, v := range cnt {
				if strings.HasPrefix(k, "acct_rejected:") {
					reasons = append(reasons, fmt.Sprintf("%s=%d", strings.TrimPrefix(k, "acct_rejected:"), v))
				}
			}
			sort.Strings(reasons)
			ev.Coverage["acct_rejection_reasons"] = reasons
			odd := []string{}
			for k := range m.Sets["model_allows_but_rejected"] {
				odd = append(odd, k)
			}
			sort.Strings(odd)
			ev.Coverage["acct_rejected_although_the_model_allows"] = odd
			if cnt["replay"] > 0 || m.Incomplete {
				return
			}
			// vacuity guards
			var missing []string
			need := func(name string) {
				if cnt[name] <= 0 {
					missing = append(missing, name)
				}
			}
			for _, n := range []string{"pow_accepted_by_code", "pow_rejected_by_code", "pow_searched_nonces", "pow_just_too_hard_claims", "pow_difficulties_with_both_outcomes",
				"acct_accepted", "acct_rejected", "acct_accepted_needing_pow", "acct_momentums", "acct_counter_checks", "stale_candidates", "stale_histories",
				"model_allows", "model_refuses:pow-not-proven", "model_refuses:below-base-cost", "model_refuses:fused-exceeds-available", "model_refuses:above-per-block-cap",
				"acct_accepted:receive", "acct_accepted:send/16384", "acct_accepted:call/pillar.Delegate", "acct_accepted:call/sentinel.Revoke"} {
				need(n)
			}
			if len(m.Sets["acct_states"]) < 10 {
				missing = append(missing, "acct_states<10")
			}
			if len(missing) > 0 {
				var all []string
				for k, v := range cnt {
					all = append(all, fmt.Sprintf("%s=%d", k, v))
				}
				sort.Strings(all)
				fmt.Fprintln(os.Stderr, strings.Join(all, "\n"))
				panic(fmt.Sprintf("C12 vacuity guard failed, nothing observed for: %v", missing))
			}
		},
	})
}
