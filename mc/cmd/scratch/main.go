package main

import (
	"fmt"
	"os"

	"verifmc/internal/ops"
	"verifmc/internal/vnode"
	_ "verifmc/props/c02"
)

func main() {
	dir, _ := os.MkdirTemp("/dev/shm", "scratch")
	defer os.RemoveAll(dir)
	n := vnode.New(vnode.Options{Dir: dir})
	M := ops.Op{K: "M"}
	for _, o := range []ops.Op{M, {K: "CancelGenesisFuse", A: 1}, M, M, {K: "Told", A: 1, B: 2, V: 4}, M,
		{K: "Call", S: "delegate", A: 0, B: 2}, M, {K: "Told", A: 0, B: 1, V: 2}, M, M, {K: "Tx", A: 1, B: 2, V: 1}} {
		fmt.Println(o, "->", ops.Apply(n, o))
	}
}
