package c17

import (
	"encoding/json"
	"fmt"
	"os"
	"os/exec"
	"path/filepath"
	"strings"

	g "github.com/zenon-network/go-zenon/chain/genesis/mock"
	"github.com/zenon-network/go-zenon/chain/nom"
	"github.com/zenon-network/go-zenon/common/types"
	"github.com/zenon-network/go-zenon/vm/constants"

	"verifmc/internal/vnode"
	"verifmc/internal/xs"
)

// A node that does not implement an enforced spork stops (os.Exit(2) in chain.momentumPool.AddMomentumTransaction and in
// chain.Init). Everything that may terminate the process runs in a child process: the worker re-executes its own binary
// with childEnv set; package init diverts such a process into childMain before xs.Main is reached.

const childEnv = "C17_CHILD"

type childArgs struct {
	Mode        string `json:"mode"` // produce | follow-step | follow-batch | init
	Dir         string `json:"dir"`
	Spork       string `json:"spork"`       // feature name, or "unknown" (a spork the binary has never heard of)
	Implemented bool   `json:"implemented"` // control: the spork id IS in types.ImplementedSporksMap
	StopAt      uint64 `json:"stop_at"`     // stop (exit 0) with the frontier at this height
	ID          string `json:"id"`          // spork id (follow / init modes)
	E           uint64 `json:"e"`           // enforcement height (follow modes)
}

type childReport struct {
	Height uint64 `json:"height"`
	E      uint64 `json:"e,omitempty"`
	Conf   uint64 `json:"conf,omitempty"`
	ID     string `json:"id,omitempty"`
}

type wireMomentum struct {
	M []byte   `json:"m"`
	B [][]byte `json:"b"`
}

func featureIndex(name string) int {
	for f, n := range featNames {
		if n == name {
			return f
		}
	}
	return -1
}

func must(err error) {
	if err != nil {
		panic(err)
	}
}

func writeReport(dir, name string, rep childReport) {
	data, _ := json.Marshal(rep)
	must(os.WriteFile(filepath.Join(dir, name), data, 0o644))
}

func readReport(dir, name string) *childReport {
	data, err := os.ReadFile(filepath.Join(dir, name))
	if err != nil {
		return nil
	}
	rep := &childReport{}
	must(json.Unmarshal(data, rep))
	return rep
}

// configure applies the child's view of the world for spork id: known to the gating code when it is one of the three
// features, present in the implemented table only for the controls.
func configure(a childArgs, id types.Hash) {
	if f := featureIndex(a.Spork); f >= 0 {
		implemented[f].SporkId = id
	}
	if a.Implemented {
		types.ImplementedSporksMap[id] = true
	} else {
		delete(types.ImplementedSporksMap, id)
	}
}

// haltScript runs the deterministic prefix on a producing node: CreateSpork at frontier 1, ActivateSpork at frontier 3
// (confirmed by momentum 4). cfg is called with the id as soon as it is known (before anything acknowledges it).
func haltScript(n *vnode.Node, cfg func(id types.Hash)) (id types.Hash, conf uint64) {
	produce := func() {
		if _, err := n.Produce(0); err != nil {
			panic(fmt.Sprintf("producer event failed: %v", err))
		}
	}
	b, err := n.Submit(createCall("spork-halt", g.Spork).template(n.Frontier().Identifier()))
	must(err)
	id = b.Hash
	cfg(id)
	produce()
	produce()
	act, err := n.Submit(activateCall(id, g.Spork).template(n.Frontier().Identifier()))
	must(err)
	produce()
	conf, err = n.Chain.GetFrontierMomentumStore().GetBlockConfirmationHeight(act.Hash)
	must(err)
	produce() // the contract's receive (acknowledging conf) is in the ledger
	return id, conf
}

func childMain() {
	var a childArgs
	must(json.Unmarshal([]byte(os.Getenv(childEnv)), &a))
	ownGlobals()
	resetBindings()
	nodeDir := filepath.Join(a.Dir, "node")
	switch a.Mode {
	case "produce":
		n := vnode.New(vnode.Options{Dir: nodeDir})
		id, conf := haltScript(n, func(id types.Hash) { configure(a, id) })
		s := sporkList(n)[id]
		if s == nil || !s.Activated {
			fmt.Println("C17-CHILD-HARNESS-ERROR: spork not activated")
			os.Exit(3)
		}
		E := s.EnforcementHeight
		target := E - 1
		if a.StopAt != 0 {
			target = a.StopAt
		}
		for n.Height() < target {
			if _, err := n.Produce(0); err != nil {
				fmt.Println("C17-CHILD-HARNESS-ERROR:", err)
				os.Exit(3)
			}
		}
		rep := childReport{Height: n.Height(), E: E, Conf: conf, ID: id.String()}
		if a.StopAt != 0 {
			writeReport(a.Dir, "stopped", rep)
			n.Stop()
			os.Exit(0)
		}
		writeReport(a.Dir, "pre", rep)
		_, err := n.Produce(0) // momentum at height E
		rep.Height = n.Height()
		writeReport(a.Dir, "post", rep)
		if err != nil {
			fmt.Println("C17-CHILD: producer event at E failed:", err)
			os.Exit(4)
		}
		n.Produce(0)
		rep.Height = n.Height()
		writeReport(a.Dir, "post2", rep)
		n.Stop()
		os.Exit(0)
	case "follow-step", "follow-batch":
		id := types.HexToHashPanic(a.ID)
		configure(a, id)
		var wire []wireMomentum
		data, err := os.ReadFile(filepath.Join(a.Dir, "chain.json"))
		must(err)
		must(json.Unmarshal(data, &wire))
		var batch []*nom.DetailedMomentum
		for _, w := range wire {
			m, err := nom.DeserializeMomentum(w.M)
			must(err)
			d := &nom.DetailedMomentum{Momentum: m}
			for _, bb := range w.B {
				b, err := nom.DeserializeAccountBlock(bb)
				must(err)
				d.AccountBlocks = append(d.AccountBlocks, b)
			}
			batch = append(batch, d)
		}
		n := vnode.New(vnode.Options{Dir: nodeDir, NoPillars: true})
		insert := func(ds []*nom.DetailedMomentum) {
			if idx, err, pan := n.InsertChain(ds); err != nil || pan != nil {
				fmt.Printf("C17-CHILD-HARNESS-ERROR: InsertChain idx=%d err=%v panic=%v\n", idx, err, pan)
				os.Exit(3)
			}
		}
		if a.Mode == "follow-batch" {
			insert(batch)
			writeReport(a.Dir, "post", childReport{Height: n.Height()})
			writeReport(a.Dir, "post2", childReport{Height: n.Height()})
			n.Stop()
			os.Exit(0)
		}
		target := a.E - 1
		if a.StopAt != 0 {
			target = a.StopAt
		}
		i := 0
		for ; n.Height() < target; i++ {
			insert(batch[i : i+1])
		}
		rep := childReport{Height: n.Height(), E: a.E, ID: a.ID}
		if a.StopAt != 0 {
			writeReport(a.Dir, "stopped", rep)
			n.Stop()
			os.Exit(0)
		}
		writeReport(a.Dir, "pre", rep)
		insert(batch[i : i+1]) // momentum at height E
		i++
		rep.Height = n.Height()
		writeReport(a.Dir, "post", rep)
		insert(batch[i:])
		rep.Height = n.Height()
		writeReport(a.Dir, "post2", rep)
		n.Stop()
		os.Exit(0)
	case "init":
		configure(a, types.HexToHashPanic(a.ID))
		n := vnode.New(vnode.Options{Dir: nodeDir, NoPillars: true}) // chain.Init runs inside
		writeReport(a.Dir, "opened", childReport{Height: n.Height()})
		n.Stop()
		os.Exit(0)
	}
	fmt.Println("C17-CHILD-HARNESS-ERROR: unknown mode", a.Mode)
	os.Exit(3)
}

type childResult struct {
	Code   int
	Out    string
	Halted bool // exit status 2 with the repository's "unimplemented spork" message (a Go panic also exits with 2)
}

func runChild(r *xs.Result, a childArgs) childResult {
	for _, f := range []string{"pre", "post", "post2", "stopped", "opened"} {
		os.Remove(filepath.Join(a.Dir, f))
	}
	env, _ := json.Marshal(a)
	cmd := exec.Command(os.Args[0])
	cmd.Env = append(os.Environ(), childEnv+"="+string(env))
	out, _ := cmd.CombinedOutput()
	r.Count("transitions", 1)
	r.Count("child_processes", 1)
	res := childResult{Code: cmd.ProcessState.ExitCode(), Out: string(out)}
	if strings.Contains(res.Out, "C17-CHILD-HARNESS-ERROR") || (res.Code != 0 && res.Code != 2 && res.Code != 4) ||
		(res.Code == 2 && !strings.Contains(res.Out, "unimplemented spork")) {
		panic(fmt.Sprintf("child %+v failed outside the code under test (exit %d): %s", a, res.Code, tailStr(res.Out, 1500)))
	}
	res.Halted = res.Code == 2
	return res
}

func tailStr(s string, n int) string {
	if len(s) > n {
		s = s[len(s)-n:]
	}
	return strings.Join(strings.Fields(s), " ")
}

func runHalt(c *xs.Ctx, r *xs.Result, it item) {
	delay := constants.SporkMinHeightDelay
	viol := func(key, what string) { r.Violate(key, fmt.Sprintf("%s: %s", it, what), it) }
	base := childArgs{Mode: it.Path, Spork: it.Spork}
	var chainFile []byte
	var E uint64
	var id types.Hash

	if it.Path != "produce" {
		// the parent prepares the chain on a node that implements the spork, up to E+2
		p := vnode.New(vnode.Options{Dir: c.TempDir()})
		var conf uint64
		id, conf = haltScript(p, func(id types.Hash) { configure(childArgs{Spork: it.Spork, Implemented: true}, id) })
		s := sporkList(p)[id]
		E = s.EnforcementHeight
		if E != conf+delay {
			viol("C17:enforcement-height-differs-from-activation-momentum-plus-delay", fmt.Sprintf("ActivateSpork confirmed by momentum %d, recorded enforcement height %d", conf, E))
			p.Destroy()
			return
		}
		for p.Height() < E+2 {
			if _, err := p.Produce(0); err != nil {
				panic(err)
			}
			r.Count("transitions", 1)
		}
		var wire []wireMomentum
		for _, d := range p.Range(2, p.Height()) {
			m, err := d.Momentum.Serialize()
			must(err)
			w := wireMomentum{M: m}
			for _, b := range d.AccountBlocks {
				bb, err := b.Serialize()
				must(err)
				w.B = append(w.B, bb)
			}
			wire = append(wire, w)
		}
		chainFile, _ = json.Marshal(wire)
		p.Destroy()
		base.ID, base.E = id.String(), E
	}
	prep := func(a childArgs) childArgs {
		a.Dir = c.TempDir()
		if chainFile != nil {
			must(os.WriteFile(filepath.Join(a.Dir, "chain.json"), chainFile, 0o644))
		}
		return a
	}

	// 1. the node that lacks the spork
	a := prep(base)
	res := runChild(r, a)
	pre, post := readReport(a.Dir, "pre"), readReport(a.Dir, "post")
	if it.Path == "produce" {
		if pre == nil {
			viol("C17:node-halts-before-enforcement-height", fmt.Sprintf("the node stopped (exit %d) before reaching the height before the enforcement height: %s", res.Code, tailStr(res.Out, 400)))
			return
		}
		E = pre.E
		id = types.HexToHashPanic(pre.ID)
		if E != pre.Conf+delay {
			viol("C17:enforcement-height-differs-from-activation-momentum-plus-delay", fmt.Sprintf("ActivateSpork confirmed by momentum %d, recorded enforcement height %d", pre.Conf, E))
			return
		}
	}
	r.Count("states", 1)
	switch it.Path {
	case "produce", "follow-step":
		if pre == nil {
			viol("C17:node-halts-before-enforcement-height", fmt.Sprintf("the node stopped (exit %d) before the momentum at height E-1=%d was inserted: %s", res.Code, E-1, tailStr(res.Out, 400)))
			return
		}
		if pre.Height != E-1 {
			panic("halt: pre report at the wrong height")
		}
		r.Count("halt_survived_E-1", 1)
		if !res.Halted || post != nil {
			h := uint64(0)
			if post != nil {
				h = post.Height
			}
			viol("C17:node-continues-past-unimplemented-spork:"+it.Path, fmt.Sprintf("spork %s (%s) is enforced from height %d and is not in ImplementedSporksMap: inserting momentum %d returned (frontier now %d), exit status %d", it.Spork, id, E, E, h, res.Code))
			return
		}
	case "follow-batch":
		if !res.Halted || post != nil {
			viol("C17:node-continues-past-unimplemented-spork:"+it.Path, fmt.Sprintf("spork %s enforced from %d, not implemented: InsertChain of momentums 2..%d returned, exit status %d", it.Spork, E, E+2, res.Code))
			return
		}
	}
	r.Count("halt_exit2_at_E", 1)
	r.Add("halt_cases", it.Path+"|"+it.Spork)
	// where did it stop? open the database with the spork implemented
	bind3 := func() {
		resetBindings()
		configure(childArgs{Spork: it.Spork, Implemented: true}, id)
	}
	bind3()
	func() {
		n := vnode.New(vnode.Options{Dir: filepath.Join(a.Dir, "node"), NoPillars: true})
		defer n.Stop()
		h := n.Height()
		r.Add("frontier_after_halt", fmt.Sprintf("%s: database left at E%+d", it.Path, int64(h)-int64(E)))
		if h > E {
			viol("C17:node-continues-past-unimplemented-spork:"+it.Path+":stored-beyond-E", fmt.Sprintf("the halted node's database is at height %d, enforcement height %d", h, E))
		}
	}()
	resetBindings()

	// 2. restart on the database the halted node left behind
	ia := childArgs{Mode: "init", Dir: a.Dir, Spork: it.Spork, ID: id.String()}
	res = runChild(r, ia)
	r.Count("states", 1)
	if !res.Halted || readReport(a.Dir, "opened") != nil {
		viol("C17:node-starts-on-database-past-unimplemented-spork", fmt.Sprintf("chain.Init on the database left at the enforcement height %d returns (exit %d)", E, res.Code))
		return
	}
	r.Count("halt_init_exit2", 1)

	// 3. control: the same run with the spork implemented survives E and E+1; its database (past E) stops a node that
	// lacks the spork at Init and opens on one that has it
	ca := prep(base)
	ca.Implemented = true
	res = runChild(r, ca)
	r.Count("states", 1)
	if p2 := readReport(ca.Dir, "post2"); res.Code != 0 || p2 == nil || p2.Height < E+1 {
		panic(fmt.Sprintf("%s: control child (spork implemented) did not survive: exit %d %s", it, res.Code, tailStr(res.Out, 800)))
	}
	r.Count("halt_control_survived", 1)
	ia = childArgs{Mode: "init", Dir: ca.Dir, Spork: it.Spork, ID: id.String(), Implemented: true}
	if res = runChild(r, ia); res.Code != 0 || readReport(ca.Dir, "opened") == nil {
		panic(fmt.Sprintf("%s: control init failed: exit %d %s", it, res.Code, tailStr(res.Out, 800)))
	}
	ia.Implemented = false
	res = runChild(r, ia)
	r.Count("states", 1)
	if !res.Halted || readReport(ca.Dir, "opened") != nil {
		viol("C17:node-starts-on-database-past-unimplemented-spork", fmt.Sprintf("chain.Init on a database at height E+1 or later (E=%d) returns (exit %d)", E, res.Code))
		return
	}
	r.Count("halt_init_exit2", 1)

	// 4. never earlier: a database at E-1 opens on the node that lacks the spork
	if it.Path != "follow-batch" {
		sa := prep(base)
		sa.StopAt = E - 1
		res = runChild(r, sa)
		if st := readReport(sa.Dir, "stopped"); res.Code != 0 || st == nil || st.Height != E-1 {
			viol("C17:node-halts-before-enforcement-height", fmt.Sprintf("the node did not reach height E-1=%d cleanly (exit %d)", E-1, res.Code))
			return
		}
		ia = childArgs{Mode: "init", Dir: sa.Dir, Spork: it.Spork, ID: id.String()}
		res = runChild(r, ia)
		r.Count("states", 1)
		if op := readReport(sa.Dir, "opened"); res.Code != 0 || op == nil || op.Height != E-1 {
			viol("C17:node-halts-before-enforcement-height:init", fmt.Sprintf("chain.Init on a database at height E-1=%d does not return (exit %d): the spork is activated but not yet enforced", E-1, res.Code))
			return
		}
		r.Count("halt_init_before_E_opened", 1)
	}
	r.Sample(map[string]interface{}{"execution": it.String(), "enforcement_height": E})
}
